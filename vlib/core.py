"""Core of the solver-based checking framework: build real libscpi TUs with goto-cc, run CBMC, parse verdicts,
extract counterexample inputs, replay them natively, honour known findings, write evidence."""
import concurrent.futures as cf
import hashlib
import json
import os
import re
import resource
import shutil
import subprocess
import sys
import time

VERIF = os.path.dirname(os.path.dirname(os.path.abspath(__file__)))
REPO = os.environ.get("VERIF_REPO", "/repo")
SRC = os.path.join(REPO, "libscpi", "src")
INC = os.path.join(REPO, "libscpi", "inc")
WORK = os.path.join(VERIF, ".work")
REPLAYS = os.path.join(VERIF, "replays")
EVID = os.path.join(VERIF, "evidence")
HOOK_GUARD = "SCPI_PARSER_VERIF"

ALL_SRCS = ["error.c", "fifo.c", "ieee488.c", "minimal.c", "parser.c", "units.c", "utils.c", "lexer.c",
            "expression.c"]

STD_FLAGS = ["--unwinding-assertions", "--drop-unused-functions", "--signed-overflow-check",
             "--undefined-shift-check", "--pointer-overflow-check", "--no-malloc-may-fail"]

TRUSTED_BASE = [
    "CBMC 6.11.0 symbolic execution + bit-precise SAT back end (MiniSat2 / CaDiCaL / kissat as named per case)",
    "goto-cc C front end, x86-64 data model (int 32, long/pointer 64, char signed); 16-bit-int targets outside",
    "CBMC's C-locale ctype models (glibc ctype macros disabled with -D__NO_CTYPE) and its models of "
    "memcpy/memmove/memset/strlen/strncpy/strncat/strcpy/strncasecmp/malloc/free",
    "own libc contract models in /verif/models/libc.c where CBMC has no body (strtol family, strtod/strtof, "
    "strnlen, strndup, snprintf, frexp, modf) - listed per case under 'stubs'",
    "the harness oracle (specification-level reference code in /verif/harness/*.c)",
]


class Case:
    """One CBMC query: a harness entry point over real translation units at fixed bounds."""

    def __init__(self, name, harness, srcs, defs=(), unwind=None, unwindset=None, flags=(), timeout=300,
                 solver=None, remove_bodies=(), config=(), models=True, mem_gb=12, note="", bounds=None,
                 functions=(), stubs=(), extra_c=(), replay_wrap=(), expect_fail=(), no_std_flags=False,
                 object_bits=None, nondet_static=False, gen_bodies=(), link_stubs=(), optional_witness=(), mem_est=3):
        self.name = name
        self.harness = harness
        self.srcs = list(srcs)
        self.defs = list(defs)
        self.unwind = unwind
        self.unwindset = dict(unwindset or {})
        self.flags = list(flags)
        self.timeout = timeout
        self.solver = solver
        self.remove_bodies = list(remove_bodies)
        self.config = list(config)
        self.models = models
        self.mem_gb = mem_gb
        self.note = note
        self.bounds = bounds or {}
        self.functions = list(functions)
        self.stubs = list(stubs)
        self.extra_c = list(extra_c)
        self.replay_wrap = list(replay_wrap)
        self.expect_fail = list(expect_fail)
        self.no_std_flags = no_std_flags
        self.object_bits = object_bits
        self.nondet_static = nondet_static
        self.gen_bodies = list(gen_bodies)
        self.link_stubs = list(link_stubs)
        self.mem_est = mem_est
        self.optional_witness = ["WITNESS " + w for w in optional_witness]


def _limit(mem_gb):
    def f():
        try:
            resource.setrlimit(resource.RLIMIT_AS, (int(mem_gb * (1 << 30)), int(mem_gb * (1 << 30))))
        except Exception:
            pass
        os.setsid()
    return f


def sh(cmd, timeout=None, cwd=None, mem_gb=None, env=None):
    t0 = time.time()
    p = subprocess.Popen(cmd, stdout=subprocess.PIPE, stderr=subprocess.PIPE, cwd=cwd, env=env,
                         preexec_fn=_limit(mem_gb) if mem_gb else os.setsid)
    try:
        out, err = p.communicate(timeout=timeout)
        to = False
    except subprocess.TimeoutExpired:
        try:
            os.killpg(p.pid, 9)
        except Exception:
            pass
        out, err = p.communicate()
        to = True
    ru = resource.getrusage(resource.RUSAGE_CHILDREN)
    return dict(rc=p.returncode, out=out.decode("utf-8", "replace"), err=err.decode("utf-8", "replace"),
                timeout=to, wall=time.time() - t0, maxrss_kb=ru.ru_maxrss)


def common_cflags(case):
    return ["-D__NO_CTYPE", "-D" + HOOK_GUARD + "=1", "-I" + INC, "-I" + SRC, "-I" + os.path.join(VERIF, "harness"),
            "-I" + os.path.join(VERIF, "models")] + case.config + case.defs


def build_goto(case, wd, kf_defs=()):
    """goto-cc build.  Functions in case.remove_bodies lose their body (goto-instrument); those also listed in
    case.link_stubs are re-defined by the harness (compiled with -DSTUB_<fn>=1 and linked afterwards), the ones in
    case.gen_bodies get a body returning an arbitrary value."""
    os.makedirs(wd, exist_ok=True)
    gb = os.path.join(wd, "case.gb")
    lib = [os.path.join(SRC, s) for s in case.srcs]
    if case.models:
        lib.append(os.path.join(VERIF, "models", "libc.c"))
    front = [os.path.join(VERIF, case.harness)] + [os.path.join(VERIF, e) for e in case.extra_c]
    cflags = common_cflags(case) + list(kf_defs) + ["-DSTUB_%s=1" % f for f in case.link_stubs]
    if not case.remove_bodies:
        r = sh(["goto-cc", "-o", gb] + cflags + front + lib, timeout=300)
        if r["rc"] != 0:
            return None, "goto-cc failed: " + r["err"][-3000:]
        return gb, None
    libgb = os.path.join(wd, "lib.gb")
    r = sh(["goto-cc", "-o", libgb] + cflags + lib, timeout=300)
    if r["rc"] != 0:
        return None, "goto-cc (lib) failed: " + r["err"][-3000:]
    lib2 = os.path.join(wd, "lib2.gb")
    cmd = ["goto-instrument"]
    for f in case.remove_bodies:
        cmd += ["--remove-function-body", f]
    r = sh(cmd + [libgb, lib2], timeout=300)
    if r["rc"] != 0:
        return None, "goto-instrument failed: " + r["err"][-2000:] + r["out"][-2000:]
    r = sh(["goto-cc", "-o", gb] + cflags + [lib2] + front, timeout=300)
    if r["rc"] != 0:
        return None, "goto-cc (link) failed: " + r["err"][-3000:]
    if case.gen_bodies:
        gb3 = os.path.join(wd, "case3.gb")
        rx = "^(" + "|".join(case.gen_bodies) + ")$"
        r = sh(["goto-instrument", "--generate-function-body", rx, "--generate-function-body-options",
                "nondet-return", gb, gb3], timeout=300)
        if r["rc"] != 0:
            return None, "goto-instrument generate-function-body failed: " + r["err"][-2000:] + r["out"][-2000:]
        gb = gb3
    return gb, None


def cbmc_cmd(case, gb):
    cmd = ["cbmc", gb, "--function", "harness", "--trace", "--json-ui"]
    if not case.no_std_flags:
        cmd += STD_FLAGS
    cmd += case.flags
    if case.unwind is not None:
        cmd += ["--unwind", str(case.unwind)]
    if case.unwindset:
        cmd += ["--unwindset", ",".join("%s:%d" % kv for kv in sorted(case.unwindset.items()))]
    if case.solver in ("cadical",):
        cmd += ["--sat-solver", "cadical"]
    elif case.solver == "kissat":
        cmd += ["--external-sat-solver", "kissat"]
    if case.object_bits:
        cmd += ["--object-bits", str(case.object_bits)]
    if case.nondet_static:
        cmd += ["--nondet-static"]
    return cmd


_IDX = re.compile(r"\[(\d+)[a-zA-Z]*\]")


def parse_cbmc_json(text):
    """Returns (results list, messages, error)"""
    try:
        data = json.loads(text)
    except Exception:
        # truncated output (timeout / OOM)
        return None, [], "unparseable CBMC output"
    results = None
    msgs = []
    status = None
    for m in data:
        if isinstance(m, dict):
            if "result" in m:
                results = m["result"]
            elif "messageText" in m:
                msgs.append(m["messageText"])
            elif "cProverStatus" in m:
                status = m["cProverStatus"]
    return results, msgs, status


def _vin_put(vals, name, v):
    """store a (possibly aggregate) trace value under flat (field, index) keys"""
    if not isinstance(v, dict):
        return
    if "binary" in v:
        if "$pad" in name or "." in name:
            return
        m = _IDX.search(name)
        idx = -1
        if m:
            idx = int(m.group(1))
            name = name[:m.start()]
        vals[(name, idx)] = int(v["binary"], 2)
    elif "elements" in v:
        for e in v["elements"]:
            _vin_put(vals, "%s[%d]" % (name, e.get("index", 0)), e.get("value"))
    elif "members" in v:
        for mbr in v["members"]:
            nm = mbr.get("name", "")
            _vin_put(vals, (name + "." + nm) if name else nm, mbr.get("value"))


def vin_from_trace(trace):
    vals = {}
    for s in trace:
        if s.get("stepType") != "assignment":
            continue
        lhs = s.get("lhs", "")
        if lhs == "vin":
            _vin_put(vals, "", s.get("value", {}))
        elif lhs.startswith("vin."):
            _vin_put(vals, lhs[4:], s.get("value", {}))
    return vals


def vin_to_text(vals, header=""):
    lines = ["# " + l for l in header.splitlines()]
    for (name, idx), bits in sorted(vals.items()):
        lines.append("%s %d %x" % (name, idx, bits))
    return "\n".join(lines) + "\n"


def vin_pretty(vals):
    """compact human view: arrays of bytes as python-bytes repr when plausible"""
    out = {}
    arrays = {}
    for (name, idx), bits in sorted(vals.items()):
        if idx < 0:
            out[name] = bits
        else:
            arrays.setdefault(name, {})[idx] = bits
    for name, d in arrays.items():
        n = max(d) + 1
        arr = [d.get(i, 0) for i in range(n)]
        if all(0 <= x < 256 for x in arr):
            out[name] = repr(bytes(arr))
        else:
            out[name] = arr
    return out


def build_replay(case, wd, kf_defs=()):
    exe = os.path.join(wd, "replay.exe")
    files = [os.path.join(VERIF, case.harness)] + [os.path.join(SRC, s) for s in case.srcs]
    files += [os.path.join(VERIF, e) for e in case.extra_c]
    if case.models:
        files.append(os.path.join(VERIF, "models", "libc.c"))
    cflags = ["-DREPLAY", "-D" + HOOK_GUARD + "=1", "-g", "-O0", "-fsanitize=address,undefined",
              "-fno-sanitize-recover=undefined", "-fno-omit-frame-pointer", "-w",
              "-I" + INC, "-I" + SRC, "-I" + os.path.join(VERIF, "harness"), "-I" + os.path.join(VERIF, "models")]
    cflags += case.config + case.defs + list(kf_defs)
    ld = ["-lm"]
    cflags.append("-fno-builtin")
    wraps = list(case.replay_wrap)
    if case.models:
        wraps += ["strtol", "strtoll", "strtoul", "strtoull", "strtod", "strtof", "strndup", "snprintf"]
    for w in wraps:
        ld.append("-Wl,--wrap=" + w)
    if case.link_stubs:
        # natively the harness' definition (first on the command line) wins over the library's
        cflags += ["-DSTUB_%s=1" % f for f in case.link_stubs]
        ld.append("-Wl,--allow-multiple-definition")
    r = sh(["gcc"] + cflags + files + ["-o", exe] + ld, timeout=300)
    if r["rc"] != 0:
        return None, r["err"][-3000:]
    return exe, None


def run_replay(exe, path, timeout=60):
    env = dict(os.environ)
    env["ASAN_OPTIONS"] = "detect_leaks=1:abort_on_error=0:exitcode=42"
    env["UBSAN_OPTIONS"] = "print_stacktrace=1:halt_on_error=1:exitcode=43"
    r = sh([exe, path], timeout=timeout, env=env)
    txt = r["out"] + r["err"]
    verdict = "pass"
    label = None
    if r["timeout"]:
        verdict, label = "fail", "native run did not terminate in %ds" % timeout
    elif "REPLAY-ASSERT-FAIL" in txt:
        verdict = "fail"
        label = re.search(r"REPLAY-ASSERT-FAIL (.*)", txt).group(1).strip()
    elif "REPLAY-ASSUME-FALSE" in txt:
        verdict = "assume-false"
        label = re.search(r"REPLAY-ASSUME-FALSE (.*)", txt).group(1).strip()
    elif "ERROR: AddressSanitizer" in txt or "runtime error:" in txt or "LeakSanitizer" in txt:
        verdict = "fail"
        m = re.search(r"(ERROR: AddressSanitizer[^\n]*|[^\n]*runtime error:[^\n]*|ERROR: LeakSanitizer[^\n]*)", txt)
        label = "sanitizer: " + (m.group(1).strip() if m else "?")
    elif r["rc"] != 0:
        verdict, label = "fail", "native exit code %d: %s" % (r["rc"], txt[-300:])
    return verdict, label, txt


MEMSAFE_CLASSES = ("pointer", "bounds", "overflow", "undefined-shift", "pointer_dereference", "array_bounds",
                   "division-by-zero", "pointer_arithmetic", "pointer_primitives", "memory-leak", "precondition")


def is_witness(res):
    return res.get("description", "").startswith("WITNESS")


import threading

_MEM_BUDGET_GB = float(os.environ.get("VERIF_MEM_GB", "44"))
_mem_cond = threading.Condition()
_mem_used = [0.0]


def _mem_acquire(gb):
    gb = min(gb, _MEM_BUDGET_GB)
    with _mem_cond:
        while _mem_used[0] + gb > _MEM_BUDGET_GB and _mem_used[0] > 0:
            _mem_cond.wait()
        _mem_used[0] += gb
    return gb


def _mem_release(gb):
    with _mem_cond:
        _mem_used[0] -= gb
        _mem_cond.notify_all()


def run_case(case, pid, kf_defs=()):
    """Run one case under the global memory budget (cases declare their expected peak in mem_est)."""
    gb = _mem_acquire(case.mem_est)
    try:
        return _run_case(case, pid, kf_defs)
    finally:
        _mem_release(gb)


def _stop_on_fail(case, wd, kf_defs):
    """one counterexample of a case whose full query timed out; returns a result record or None"""
    wd2 = os.path.join(wd, "sof")
    os.makedirs(wd2, exist_ok=True)
    gb, err = build_goto(case, wd2, tuple(kf_defs) + ("-DNO_WITNESS",))
    if err:
        return None
    cmd = cbmc_cmd(case, gb) + ["--stop-on-fail"]
    r = sh(cmd, timeout=min(case.timeout, 1200), mem_gb=case.mem_gb)
    if r["timeout"]:
        return None
    try:
        data = json.loads(r["out"])
    except Exception:
        return None
    for m in data:
        if isinstance(m, dict) and "trace" in m and "property" in m and str(m.get("status", "")).lower().startswith("fail"):
            loc = {}
            for st in reversed(m["trace"]):
                if st.get("stepType") == "failure":
                    loc = st.get("sourceLocation", {})
                    break
            return dict(description=m.get("description", ""), property=m["property"], status="FAILURE", trace=m["trace"], sourceLocation=loc)
    return None


def _run_case(case, pid, kf_defs=()):
    """Run one case. Returns dict with verdict details."""
    t0 = time.time()
    wd = os.path.join(WORK, pid, case.name)
    shutil.rmtree(wd, ignore_errors=True)
    os.makedirs(wd, exist_ok=True)
    info = dict(case=case.name, harness=case.harness, srcs=case.srcs, defs=case.defs + list(kf_defs),
                unwind=case.unwind, unwindset=case.unwindset, solver=case.solver or "minisat2(default)",
                bounds=case.bounds, note=case.note, functions=case.functions, stubs=case.stubs,
                removed_bodies=case.remove_bodies, config=case.config)
    gb, err = build_goto(case, wd, kf_defs)
    if err:
        info.update(status="error", error=err, wall_s=time.time() - t0)
        return info
    cmd = cbmc_cmd(case, gb)
    info["cmd"] = " ".join(cmd).replace(wd, "<work>")
    r = sh(cmd, timeout=case.timeout, mem_gb=case.mem_gb)
    info["cbmc_wall_s"] = round(r["wall"], 2)
    info["maxrss_mb"] = int(r["maxrss_kb"] / 1024)
    fallback = False
    if r["timeout"]:
        # A tree on which very many obligations fail can exhaust the time limit just enumerating them (one SAT call and
        # one trace per failing obligation).  Before giving up, look for ONE counterexample: same query with the
        # reachability witnesses compiled out (-DNO_WITNESS) and --stop-on-fail.  Only a natively reproduced
        # counterexample counts (as always); if none is found the case stays a timeout.
        fb = None
        if os.environ.get("VERIF_TIMEOUT_FALLBACK", "1") == "1":
            fb = _stop_on_fail(case, wd, kf_defs)
        if fb is None:
            info.update(status="timeout", error="CBMC exceeded %ds" % case.timeout, wall_s=time.time() - t0)
            shutil.rmtree(wd, ignore_errors=True)
            return info
        fallback = True
        info["fallback"] = "primary query exceeded %ds; counterexample from a --stop-on-fail query without witness points" % case.timeout
        results, msgs, status = [fb], [], "failure"
    else:
        results, msgs, status = parse_cbmc_json(r["out"])
    solver_s = 0.0
    vcc = None
    for m in msgs:
        mm = re.search(r"Runtime (?:Solver|decision procedure): ([0-9.]+)s", m)
        if mm:
            solver_s += float(mm.group(1))
        mm = re.search(r"Generated (\d+) VCC\(s\), (\d+) remaining", m)
        if mm:
            vcc = (int(mm.group(1)), int(mm.group(2)))
        mm = re.search(r"size of program expression: (\d+) steps", m)
        if mm:
            info["ssa_steps"] = int(mm.group(1))
        mm = re.search(r"(\d+) variables, (\d+) clauses", m)
        if mm:
            info["sat_vars"], info["sat_clauses"] = int(mm.group(1)), int(mm.group(2))
    info["solver_s"] = round(solver_s, 2)
    info["vccs"] = vcc
    if results is None:
        tail = (r["out"][-1500:] + r["err"][-1500:])
        info.update(status="error", error="no CBMC result (rc=%s): %s" % (r["rc"], tail), wall_s=time.time() - t0)
        return info
    n_obl = 0
    n_ok = 0
    witnesses = []
    failures = []
    for res in results:
        if is_witness(res):
            reached = res["status"] == "FAILURE"
            w = dict(label=res["description"], reached=reached)
            if reached and "trace" in res:
                w["input"] = vin_pretty(vin_from_trace(res["trace"]))
            witnesses.append(w)
            continue
        n_obl += 1
        if res["status"] == "SUCCESS":
            n_ok += 1
        else:
            failures.append(res)
    info["obligations"] = n_obl
    info["discharged"] = n_ok
    info["witnesses"] = witnesses
    # cross-validation of the encoding: the input of one reached witness is replayed on the native build (real libc, real
    # library, sanitizers); the same harness must reach the same witness point there and no assertion may fail
    info["witness_validated"] = None
    if os.environ.get("VERIF_VALIDATE_WITNESS", "1") == "1":
        for res in results:
            if is_witness(res) and res["status"] == "FAILURE" and "trace" in res:
                vals = vin_from_trace(res["trace"])
                wpath = os.path.join(wd, "witness.vin")
                with open(wpath, "w") as fh:
                    fh.write(vin_to_text(vals, "witness " + res.get("description", "")))
                wexe, werr = build_replay(case, wd, kf_defs)
                if wexe is None:
                    info["witness_validated"] = dict(ok=False, why="native build failed: " + (werr or "")[-300:])
                else:
                    verdict, label, txt = run_replay(wexe, wpath)
                    want = "REPLAY-WITNESS " + res.get("description", "")[len("WITNESS "):]
                    info["witness_validated"] = dict(ok=(verdict == "pass" and want in txt), verdict=verdict, label=label,
                                                     witness=res.get("description"))
                break
    info["failures"] = []
    unreached = [w["label"] for w in witnesses if not w["reached"] and w["label"] not in case.optional_witness]
    if not witnesses:
        unreached = [] if fallback else ["<harness has no WITNESS point>"]
    info["vacuous"] = unreached
    # group failures by identical vin to limit replays
    exe = None
    seen_inputs = {}
    for res in failures:
        desc = res.get("description", "")
        prop = res.get("property", "")
        loc = res.get("sourceLocation", {})
        f = dict(property=prop, description=desc, file=loc.get("file"), line=loc.get("line"),
                 function=loc.get("function"), status=res["status"])
        trace = res.get("trace")
        if res["status"] != "FAILURE" or trace is None:
            f["kind"] = "undecided"
            info["failures"].append(f)
            continue
        if "unwinding assertion" in desc or ".unwind." in prop:
            f["kind"] = "unwind-bound"
            vals = vin_from_trace(trace)
            f["input"] = vin_pretty(vals)
            info["failures"].append(f)
            continue
        vals = vin_from_trace(trace)
        f["input"] = vin_pretty(vals)
        key = hashlib.sha1(repr(sorted(vals.items())).encode()).hexdigest()[:12]
        os.makedirs(os.path.join(REPLAYS, pid), exist_ok=True)
        rpath = os.path.join(REPLAYS, pid, "%s-%s.vin" % (case.name, key))
        hdr = "property=%s case=%s\ncbmc-property=%s: %s\nat %s:%s\nharness=%s defs=%s config=%s\nreplay: python3 /verif/run.py %s --replay %s" % (
            pid, case.name, prop, desc, loc.get("file"), loc.get("line"), case.harness, " ".join(case.defs),
            " ".join(case.config), pid, rpath)
        with open(rpath, "w") as fh:
            fh.write(vin_to_text(vals, hdr))
        f["replay"] = rpath
        if key in seen_inputs:
            f["native"] = seen_inputs[key]
        else:
            if exe is None:
                exe, berr = build_replay(case, wd, kf_defs)
                if exe is None:
                    exe = False
                    info["replay_build_error"] = berr
            if exe:
                verdict, label, txt = run_replay(exe, rpath)
                f["native"] = dict(verdict=verdict, label=label)
                with open(rpath, "a") as fh:
                    fh.write("# native replay verdict: %s %s\n" % (verdict, label or ""))
            else:
                f["native"] = dict(verdict="no-replay-build", label=info.get("replay_build_error", "")[-400:])
            seen_inputs[key] = f["native"]
        memsafe = any(c in prop for c in MEMSAFE_CLASSES) and not desc.startswith("P:")
        if f["native"]["verdict"] == "fail":
            f["kind"] = "confirmed"
        elif memsafe and not (loc.get("file") or "").startswith(VERIF):
            f["kind"] = "solver-only-ub"
        else:
            f["kind"] = "unreproduced"
        info["failures"].append(f)
    if info["failures"]:
        info["status"] = "fail"
    elif unreached:
        info["status"] = "vacuous"
    else:
        info["status"] = "pass"
    info["wall_s"] = round(time.time() - t0, 2)
    shutil.rmtree(wd, ignore_errors=True)
    return info


def load_known():
    p = os.path.join(VERIF, "known_findings.json")
    if not os.path.exists(p):
        return []
    return json.load(open(p))["findings"]


def check_known_finding(kf, case_lookup):
    """Replays the stored witness of an open finding natively (built WITHOUT the exclusion define)."""
    case = case_lookup(kf["witness"]["case"])
    if case is None:
        return "no-case", "case %s not found" % kf["witness"]["case"]
    wd = os.path.join(WORK, kf["property"], "kf-" + kf["id"])
    shutil.rmtree(wd, ignore_errors=True)
    os.makedirs(wd, exist_ok=True)
    exe, err = build_replay(case, wd, ())
    if exe is None:
        return "build-error", err
    rpath = os.path.join(wd, "kf.vin")
    vals = {}
    for k, v in kf["witness"]["vin"].items():
        if isinstance(v, list):
            for i, x in enumerate(v):
                vals[(k, i)] = x
        elif isinstance(v, str):
            for i, x in enumerate(v.encode("latin-1")):
                vals[(k, i)] = x
        else:
            vals[(k, -1)] = v
    with open(rpath, "w") as fh:
        fh.write(vin_to_text(vals, "known finding " + kf["id"]))
    verdict, label, txt = run_replay(exe, rpath)
    shutil.rmtree(wd, ignore_errors=True)
    return verdict, label


def run_property(pid, tier, cases, meta, jobs=None):
    """Runs all cases, prints the interface lines, writes evidence. Returns exit code."""
    t0 = time.time()
    seed = int(os.environ.get("VERIF_SEED", "0") or 0)
    os.makedirs(EVID, exist_ok=True)
    known = [k for k in load_known() if k["property"] == pid]
    open_kf = [k for k in known if k["status"] == "open"]
    kf_defs = ["-DKF_%s=1" % k["id"] for k in open_kf]
    jobs = jobs or int(os.environ.get("VERIF_JOBS", "16"))
    infos = []
    # schedule long cases first
    order = sorted(cases, key=lambda c: -c.timeout)
    with cf.ThreadPoolExecutor(max_workers=jobs) as ex:
        futs = {ex.submit(run_case, c, pid, kf_defs): c for c in order}
        for fu in cf.as_completed(futs):
            c = futs[fu]
            try:
                info = fu.result()
            except Exception as e:  # noqa
                info = dict(case=c.name, status="error", error="driver exception: %r" % (e,))
            infos.append(info)
            sys.stderr.write("[%s] %-40s %-8s obl=%s/%s cbmc=%ss rss=%sMB %s\n" % (
                pid, info["case"], info["status"], info.get("discharged"), info.get("obligations"),
                info.get("cbmc_wall_s"), info.get("maxrss_mb"), (info.get("error") or "")[:300].replace("\n", " ")))
            sys.stderr.flush()
    infos.sort(key=lambda i: i["case"])
    violations = []
    inconclusive = []
    undecided = {}
    for info in infos:
        if info["status"] in ("error", "timeout"):
            inconclusive.append("%s: %s" % (info["case"], info.get("error", info["status"])[:500]))
        elif info["status"] == "vacuous":
            inconclusive.append("%s: vacuity guard: witness point(s) not reachable: %s" % (info["case"], info["vacuous"]))
        elif info["status"] == "fail":
            for f in info["failures"]:
                if f["kind"] == "confirmed":
                    violations.append((info["case"], f))
                elif f["kind"] == "solver-only-ub":
                    if meta.get("ub_is_violation", False):
                        violations.append((info["case"], f))
                    else:
                        inconclusive.append("%s: solver-only UB report (not sanitizer-confirmable) %s at %s:%s" % (
                            info["case"], f["description"], f["file"], f["line"]))
                elif f["kind"] == "undecided":
                    undecided.setdefault(info["case"], []).append(f["description"])
                elif f["kind"] == "unwind-bound":
                    inconclusive.append("%s: unwinding assertion failed (%s) - bound too small for the shaped input, "
                                        "not a verdict" % (info["case"], f["property"]))
                else:
                    inconclusive.append("%s: counterexample for '%s' did not reproduce natively (%s) - encoding "
                                        "mismatch, not reported as violation" % (info["case"], f["description"],
                                                                                 f.get("native")))
            if info["vacuous"]:
                inconclusive.append("%s: witness point(s) not reachable: %s" % (info["case"], info["vacuous"]))
    for cname, descs in sorted(undecided.items()):
        inconclusive.append("%s: %d obligation(s) left undecided by CBMC (status UNKNOWN/ERROR, e.g. behind a failed "
                            "pointer check): %s ..." % (cname, len(descs), descs[0]))
    # known findings: replay witnesses
    kf_lines = []
    case_by_name = {c.name: c for c in meta.get("all_cases", cases)}
    for k in open_kf:
        verdict, label = check_known_finding(k, case_by_name.get)
        if verdict == "fail":
            kf_lines.append("KNOWN-FINDING: property=%s %s [%s] (witness still fails natively: %s)" % (
                pid, k["what"], k["id"], label))
        else:
            kf_lines.append("NOTE: known finding %s of %s no longer reproduces natively (%s %s); its exclusion "
                            "define is still applied" % (k["id"], pid, verdict, label))
    for l in kf_lines:
        print(l)
    seen = set()
    for cname, f in violations:
        key = f.get("replay")
        if key in seen:
            continue
        seen.add(key)
        print("VIOLATION property=%s replay=%s" % (pid, f.get("replay")))
        print("  case=%s cbmc: %s [%s] at %s:%s native: %s" % (cname, f["description"], f["property"], f["file"],
                                                               f["line"], f.get("native")))
        print("  input: %s" % json.dumps(f.get("input"), sort_keys=True)[:1500])
    for l in inconclusive:
        print("INCONCLUSIVE property=%s %s" % (pid, l))
    n_obl = sum(i.get("obligations", 0) for i in infos)
    n_ok = sum(i.get("discharged", 0) for i in infos)
    nontrivial = sum(1 for i in infos if i.get("obligations", 0) > 0 and i["status"] == "pass")
    samples = []
    for i in infos:
        s = dict(case=i["case"], status=i["status"], bounds=i.get("bounds"), obligations=i.get("obligations"),
                 discharged=i.get("discharged"), unwind=i.get("unwind"), unwindset=i.get("unwindset"),
                 solver=i.get("solver"), solver_s=i.get("solver_s"), cbmc_wall_s=i.get("cbmc_wall_s"),
                 maxrss_mb=i.get("maxrss_mb"), ssa_steps=i.get("ssa_steps"), sat_vars=i.get("sat_vars"),
                 sat_clauses=i.get("sat_clauses"), defs=i.get("defs"), config=i.get("config"),
                 functions=i.get("functions"), stubs=i.get("stubs"), removed_bodies=i.get("removed_bodies"),
                 note=i.get("note"), cmd=i.get("cmd"))
        ws = i.get("witnesses") or []
        s["witnesses"] = [dict(label=w["label"], reached=w["reached"], input=w.get("input")) for w in ws][:6]
        s["witness_validated_natively"] = i.get("witness_validated")
        if i.get("failures"):
            s["failures"] = [{k: v for k, v in f.items() if k != "trace"} for f in i["failures"]][:10]
        if i.get("error"):
            s["error"] = i["error"][:1000]
        samples.append(s)
    functions = sorted(set(sum([i.get("functions") or [] for i in infos], [])))
    stubs = sorted(set(sum([i.get("stubs") or [] for i in infos], [])))
    ev = dict(
        property_id=pid, tier=tier, seed=seed, level="model_checking",
        coverage=dict(
            evaluations=len(infos),
            distinct_nontrivial=nontrivial,
            rule="one evaluation = one CBMC query (harness entry point x bound/config instance) over the real "
                 "libscpi translation units compiled from /repo by goto-cc on this run; a query is counted "
                 "non-trivial when it carries >=1 proof obligation (assertion or built-in memory/arith check) "
                 "beyond its WITNESS reachability points, all witnesses were reached, and every obligation was "
                 "discharged (UNSAT); distinct = distinct case names (distinct harness/bound/config tuples)",
            samples=samples,
            obligations=n_obl, discharged=n_ok,
            checker_cmd="python3 /verif/run.py %s --tier %s" % (pid, tier),
            trusted_base=TRUSTED_BASE,
            functions_encoded=functions, stubs=stubs,
            bounds=meta.get("bounds", {}),
            outside_bounds=meta.get("outside", []),
            solver_time_s=round(sum(i.get("solver_s", 0) or 0 for i in infos), 2),
            cbmc_time_s=round(sum(i.get("cbmc_wall_s", 0) or 0 for i in infos), 2),
            peak_rss_mb=max([i.get("maxrss_mb", 0) or 0 for i in infos] + [0]),
            exhaustive=False,
            explanation=meta.get("explanation", ""),
            known_findings=[dict(id=k["id"], status=k["status"], what=k["what"]) for k in known],
            inconclusive=inconclusive,
            traces_validated_against_impl=sum(1 for i in infos if (i.get("witness_validated") or {}).get("ok")),
            witness_replays_not_matching=[dict(case=i["case"], detail=i.get("witness_validated")) for i in infos
                                          if i.get("witness_validated") is not None and not i["witness_validated"].get("ok")][:20],
        ),
        assumptions=meta.get("assumptions", []) + ["sources compiled from %s working tree at run time" % REPO],
        wall_s=round(time.time() - t0, 2),
        violations=len(seen),
    )
    with open(os.path.join(EVID, pid + ".json"), "w") as fh:
        json.dump(ev, fh, indent=1, sort_keys=True)
    shutil.rmtree(os.path.join(WORK, pid), ignore_errors=True)
    sys.stderr.write("[%s] tier=%s cases=%d obligations=%d discharged=%d violations=%d inconclusive=%d wall=%.1fs\n" % (
        pid, tier, len(infos), n_obl, n_ok, len(seen), len(inconclusive), time.time() - t0))
    if seen:
        return 1
    if inconclusive:
        return 2
    print("OK property=%s tier=%s cases=%d obligations=%d discharged=%d" % (pid, tier, len(infos), n_obl, n_ok))
    return 0


def replay_file(pid, path, all_cases):
    """--replay: rebuild the native harness named in the replay file and run it."""
    hdr = open(path).read()
    m = re.search(r"case=(\S+)", hdr)
    if not m:
        print("replay file has no case= header")
        return 2
    cname = m.group(1)
    case = {c.name: c for c in all_cases}.get(cname)
    if case is None:
        print("unknown case", cname)
        return 2
    wd = os.path.join(WORK, pid, "replay-" + cname)
    shutil.rmtree(wd, ignore_errors=True)
    os.makedirs(wd, exist_ok=True)
    exe, err = build_replay(case, wd)
    if exe is None:
        print("replay build failed:", err)
        return 2
    verdict, label, txt = run_replay(exe, path)
    print(txt[-4000:])
    print("native replay verdict:", verdict, label or "")
    shutil.rmtree(wd, ignore_errors=True)
    return 1 if verdict == "fail" else 0
