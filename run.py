#!/usr/bin/env python3
"""Driver: python3 run.py <property-id> [--tier quick|thorough] [--replay file] [--case name] [--list]"""
import argparse
import importlib
import os
import sys

sys.path.insert(0, os.path.dirname(os.path.abspath(__file__)))
from vlib import core  # noqa


def main():
    ap = argparse.ArgumentParser()
    ap.add_argument("pid")
    ap.add_argument("--tier", default=os.environ.get("VERIF_TIER", "quick"), choices=["quick", "thorough"])
    ap.add_argument("--replay")
    ap.add_argument("--case", action="append")
    ap.add_argument("--list", action="store_true")
    ap.add_argument("--jobs", type=int)
    a = ap.parse_args()
    mod = importlib.import_module("props." + a.pid.lower())
    if a.replay:
        allc = {c.name: c for t in ("thorough", "quick") for c in mod.cases(t)}
        sys.exit(core.replay_file(a.pid, a.replay, list(allc.values())))
    cases = mod.cases(a.tier)
    if a.list:
        for c in cases:
            print(c.name, c.bounds)
        return
    meta = dict(mod.META)
    allc = {c.name: c for t in ("thorough", "quick") for c in mod.cases(t)}
    meta["all_cases"] = list(allc.values())
    if core.REPO != "/repo":
        # runs against a scratch tree (seeded-change evaluation) never touch the evidence of the real check
        core.EVID = os.path.join(core.WORK, "alt-evidence")
        core.WORK = os.path.join(core.WORK, "alt-" + os.path.basename(core.REPO.rstrip("/")))
    if a.case:
        cases = [c for c in cases if any(x in c.name for x in a.case)]
        # partial runs never overwrite evidence of the full check
        core.EVID = os.path.join(core.WORK, "partial-evidence")
    sys.exit(core.run_property(a.pid, a.tier, cases, meta, jobs=a.jobs))


if __name__ == "__main__":
    main()
