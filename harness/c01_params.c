/* C01 (parameter layer) - every parameter-decoding and expression API applied to WHATEVER it is given.
 * An arbitrary NUL-terminated buffer of N symbolic bytes (all 256 values) becomes the parameter list of a command
 * (lex_state: buffer, cursor at an arbitrary offset, length n - the state SCPI_Parse hands to a handler, except that here
 * the bytes need not be well-formed program data at all); one reader (-DAPI) is applied up to twice.  No functional oracle:
 * the obligations are CBMC's memory-safety / arithmetic checks inside the library (reads and writes inside the buffer and
 * the caller's variables only, no undefined arithmetic), termination (unwinding assertions), and: the cursor stays inside
 * the buffer, FALSE comes with an error or an absent optional parameter.
 * The buffer object is exactly N+1 bytes: its last byte is the NUL that SCPI_Input/SCPI_Parse guarantee.
 */
#include "hctx.h"
#include "scpi/expression.h"
#include "scpi/units.h"
#include "libc.h"

#ifndef N
#define N 4
#endif
#ifndef API
#define API 0
#endif

#define VIN_FIELDS(F, A) \
    A(char, bytes, N) \
    F(uint8_t, len) \
    F(uint8_t, off) \
    F(uint8_t, mand) \
    F(uint8_t, index) \
    F(uint8_t, cap)
#include "vin.h"

static char buf[N + 1];
static scpi_t ctx;
static scpi_error_t queue[6];
static const scpi_choice_def_t choices[] = {{"ON", 1}, {"OFF", 0}, {"MAXimum", 2}, SCPI_CHOICE_LIST_END};

void harness(void) {
    int i, n, rep;
    scpi_bool_t ok = TRUE;
    VIN_INIT();
    n = vin.len;
    VASSUME(n <= N && vin.off <= n);
    for (i = 0; i < N; i++) buf[i] = i < n ? vin.bytes[i] : 0;
    buf[N] = 0;
    for (i = 0; i < N; i++) if (i < n) VASSUME(buf[i] != 0); /* the logical data hold no NUL; one follows them */
    ctx.interface = &hx_interface;
    ctx.units = scpi_units_def;
    ctx.error_queue.data = queue;
    ctx.error_queue.size = 6;
    ctx.param_list.lex_state.buffer = buf;
    ctx.param_list.lex_state.pos = buf + vin.off;
    ctx.param_list.lex_state.len = n;
    ctx.input_count = vin.off ? 1 : 0;
    for (rep = 0; rep < 2; rep++) {
        int e0 = ctx.error_queue.count;
        scpi_bool_t mand = (vin.mand >> rep) & 1;
        int absent = ctx.param_list.lex_state.pos >= buf + n;
#if API == 0
        { int32_t v; ok = SCPI_ParamInt32(&ctx, &v, mand); }
#elif API == 1
        { uint64_t v; ok = SCPI_ParamUInt64(&ctx, &v, mand); }
#elif API == 2
        { double v; ok = SCPI_ParamDouble(&ctx, &v, mand); }
#elif API == 3
        { float v; ok = SCPI_ParamFloat(&ctx, &v, mand); }
#elif API == 4
        { scpi_bool_t v; ok = SCPI_ParamBool(&ctx, &v, mand); }
#elif API == 5
        { int32_t v; ok = SCPI_ParamChoice(&ctx, choices, &v, mand); }
#elif API == 6
        { const char * p; size_t l; ok = SCPI_ParamCharacters(&ctx, &p, &l, mand); if (ok) VASSERT(p >= buf && p + l <= buf + n, "C01 character data lie inside the input"); }
#elif API == 7
        { const char * p; size_t l; ok = SCPI_ParamArbitraryBlock(&ctx, &p, &l, mand); if (ok) VASSERT(p >= buf && p + l <= buf + n, "C01 block data lie inside the input"); }
#elif API == 8
        { char t[3]; size_t l = 9; ok = SCPI_ParamCopyText(&ctx, t, sizeof t, &l, mand); if (ok) VASSERT(l <= sizeof t, "C01 copied text fits the caller's buffer"); }
#elif API == 9
        { scpi_number_t v; ok = SCPI_ParamNumber(&ctx, scpi_special_numbers_def, &v, mand); }
#elif API == 10
        { int32_t a[2]; size_t got = 9; ok = SCPI_ParamArrayInt32(&ctx, a, 2, &got, SCPI_FORMAT_ASCII, mand); VASSERT(got <= 2, "C01 array reader never reports more elements than the caller's array holds"); }
#elif API == 11
        {
            scpi_parameter_t p, from, to;
            scpi_bool_t isRange;
            ok = SCPI_Parameter(&ctx, &p, mand);
            if (ok) {
                scpi_expr_result_t r = SCPI_ExprNumericListEntry(&ctx, &p, vin.index % 4, &isRange, &from, &to);
                VASSERT(r == SCPI_EXPR_OK || r == SCPI_EXPR_NO_MORE || r == SCPI_EXPR_ERROR, "C01 list walker returns a defined result");
            }
        }
#elif API == 12
        {
            scpi_parameter_t p;
            scpi_bool_t isRange;
            int32_t f[2], t[2];
            size_t dims = 0;
            ok = SCPI_Parameter(&ctx, &p, mand);
            if (ok) {
                scpi_expr_result_t r = SCPI_ExprChannelListEntry(&ctx, &p, vin.index % 4, &isRange, f, t, vin.cap % 3, &dims);
                VASSERT(r == SCPI_EXPR_OK || r == SCPI_EXPR_NO_MORE || r == SCPI_EXPR_ERROR, "C01 list walker returns a defined result");
            }
        }
#endif
        VASSERT(ctx.param_list.lex_state.pos >= buf && ctx.param_list.lex_state.pos <= buf + n, "C01 the parameter cursor stays inside the input");
        if (!ok) VASSERT(ctx.error_queue.count > e0 || (!mand && absent) || ctx.error_queue.count == 6, "C01 a reader that fails queued an error (or the optional parameter is absent)");
    }
    VWITNESS("end");
}
