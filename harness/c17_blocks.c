/* C17 - binary results are valid definite-length blocks in the requested byte order.
 *   -DPART=1  SCPI_ResultArbitraryBlockHeader: '#', digit count, decimal byte count decoding back to the length
 *             (LEN_LO..LEN_HI slice of lengths, symbolic inside the slice)
 *   -DPART=2  SCPI_ResultArbitraryBlockData accounting from an ARBITRARY remaining-length / item-count state:
 *             refusal (-310, nothing written) iff the data exceed the announced remainder, item counted exactly on completion,
 *             data bytes emitted unchanged
 *   -DPART=3  SCPI_ResultArray<T> (-DTYPE=0..9) binary formats NORMAL/SWAPPED with COUNT symbolic elements: header + payload,
 *             big-endian images for NORMAL and little-endian for SWAPPED, computed here by shifts (host-order independent);
 *             run by the driver under both --little-endian and --big-endian target models
 *   -DPART=4  SCPI_ResultArbitraryBlock: header + unchanged data as one item, streamed split (header, data in two calls)
 */
#define HX_OUT_MAX 48
#include "hctx.h"
#include <string.h>

#ifndef PART
#define PART 1
#endif
#ifndef TYPE
#define TYPE 4
#endif
#ifndef COUNT
#define COUNT 3
#endif
#ifndef FMT
#define FMT 1
#endif

#define VIN_FIELDS(F, A) \
    F(uint32_t, len) \
    F(uint32_t, remaining) \
    F(int16_t, out_count) \
    A(uint8_t, data, 8) \
    F(uint8_t, dlen) \
    A(uint64_t, elem, COUNT) \
    F(uint8_t, count) \
    F(uint8_t, fmt) \
    F(uint8_t, split)
#include "vin.h"

static scpi_t ctx;
static scpi_error_t queue[4];

static void setup(void) {
    ctx.interface = &hx_interface;
    ctx.error_queue.data = queue;
    ctx.error_queue.size = 4;
}

#if PART == 3
#if TYPE == 0
typedef int8_t elem_t;
#define RESULT_ARRAY SCPI_ResultArrayInt8
#elif TYPE == 1
typedef uint8_t elem_t;
#define RESULT_ARRAY SCPI_ResultArrayUInt8
#elif TYPE == 2
typedef int16_t elem_t;
#define RESULT_ARRAY SCPI_ResultArrayInt16
#elif TYPE == 3
typedef uint16_t elem_t;
#define RESULT_ARRAY SCPI_ResultArrayUInt16
#elif TYPE == 4
typedef int32_t elem_t;
#define RESULT_ARRAY SCPI_ResultArrayInt32
#elif TYPE == 5
typedef uint32_t elem_t;
#define RESULT_ARRAY SCPI_ResultArrayUInt32
#elif TYPE == 6
typedef int64_t elem_t;
#define RESULT_ARRAY SCPI_ResultArrayInt64
#elif TYPE == 7
typedef uint64_t elem_t;
#define RESULT_ARRAY SCPI_ResultArrayUInt64
#elif TYPE == 8
typedef float elem_t;
#define RESULT_ARRAY SCPI_ResultArrayFloat
#else
typedef double elem_t;
#define RESULT_ARRAY SCPI_ResultArrayDouble
#endif
#endif

void harness(void) {
    int i;
    VIN_INIT();
    setup();

#if PART == 1
    {
        uint32_t len = vin.len, acc = 0;
        int nd;
        size_t r;
        VASSUME(len >= LEN_LO && len <= LEN_HI);
        ctx.output_count = vin.out_count & 1; /* with / without a preceding item (delimiter) */
        r = SCPI_ResultArbitraryBlockHeader(&ctx, len);
        i = 0;
        if (ctx.output_count > 0) {
            VASSERT(hx_out[0] == ',', "C17 header: preceded by the item delimiter when an item was already emitted");
            i = 1;
        }
        VASSERT(hx_out[i] == '#', "C17 header: starts with '#'");
        nd = hx_out[i + 1] - '0';
        VASSERT(nd >= 1 && nd <= 9, "C17 header: one non-zero digit gives the number of length digits");
        VASSERT((int) hx_out_len == i + 2 + nd && r == hx_out_len, "C17 header: exactly '#', the count digit and that many digits");
        VASSERT(nd == 1 || hx_out[i + 2] != '0', "C17 header: no leading zero in the length");
        {
            int k;
            for (k = 0; k < 9; k++) {
                if (k < nd) {
                    int d = hx_out[i + 2 + k] - '0';
                    VASSERT(d >= 0 && d <= 9, "C17 header: length digits are decimal digits");
                    acc = acc * 10u + (uint32_t) d;
                }
            }
        }
        VASSERT(acc == len, "C17 header: the decimal byte count decodes back to the announced length");
        VASSERT(ctx.arbitrary_remaining == len, "C17 header: the announced length is what remains to be sent");
        VASSERT(!hx_out_overflow, "P: output log large enough");
    }
#elif PART == 2
    {
        size_t len = vin.dlen, r;
        int_fast16_t c0 = vin.out_count;
        size_t rem0 = vin.remaining;
        VASSUME(len <= 8);
        VASSUME(c0 >= 0 && c0 < 1000);
        ctx.arbitrary_remaining = rem0;
        ctx.output_count = c0;
        r = SCPI_ResultArbitraryBlockData(&ctx, vin.data, len);
        if (len > rem0) {
            VASSERT(r == 0 && hx_out_len == 0, "C17 data: bytes beyond the announced length are refused, nothing is written");
            VASSERT(ctx.error_queue.count == 1 && queue[0].error_code == SCPI_ERROR_SYSTEM_ERROR, "C17 data: refusal queues -310");
            VASSERT(ctx.arbitrary_remaining == rem0 && ctx.output_count == c0, "C17 data: a refused call changes no accounting");
            VWITNESS("refused");
        } else {
            VASSERT(r == len && hx_out_len == len, "C17 data: exactly the given bytes are written");
            for (i = 0; i < 8; i++) if ((size_t) i < len) VASSERT((uint8_t) hx_out[i] == vin.data[i], "C17 data: bytes are emitted unchanged");
            VASSERT(ctx.arbitrary_remaining == rem0 - len, "C17 data: remaining length decreases by what was sent");
            VASSERT(ctx.output_count == c0 + (rem0 == len ? 1 : 0), "C17 data: the block counts as one item exactly when it is complete");
            VASSERT(ctx.error_queue.count == 0, "C17 data: no error when the data fit");
            if (rem0 == len && len > 0) VWITNESS("completed");
        }
    }
#elif PART == 3
    {
        elem_t arr[COUNT];
        size_t n = vin.count, r, total;
        /* concrete per case (-DFMT): with a symbolic format the dead ASCII branch (base-10 formatting of symbolic 64-bit
         * values) stayed in the formula and gave no verdict in 600 s */
        scpi_array_format_t fmt = FMT == 2 ? SCPI_FORMAT_SWAPPED : SCPI_FORMAT_NORMAL;
        int hdr, k, b;
        VASSUME(n <= COUNT);
        for (i = 0; i < COUNT; i++) {
            uint64_t bits = vin.elem[i];
            memcpy(&arr[i], &bits, sizeof(elem_t)); /* low sizeof(elem_t) bytes on a little-endian host; any bit pattern */
        }
        r = RESULT_ARRAY(&ctx, arr, n, fmt);
        total = n * sizeof(elem_t);
        VASSERT(total < 100, "P: payload below 100 bytes");
        hdr = total < 10 ? 3 : 4;
        VASSERT(hx_out[0] == '#', "C17 array: block starts with '#'");
        if (total < 10) {
            VASSERT(hx_out[1] == '1' && hx_out[2] == (char) ('0' + total), "C17 array: header announces the payload size");
        } else {
            VASSERT(hx_out[1] == '2' && hx_out[2] == (char) ('0' + total / 10) && hx_out[3] == (char) ('0' + total % 10), "C17 array: header announces the payload size");
        }
        VASSERT(hx_out_len == (size_t) hdr + total && r == hx_out_len, "C17 array: exactly header plus payload bytes are written");
        for (k = 0; k < COUNT; k++) {
            if ((size_t) k < n) {
                /* element value as an unsigned integer image, independent of host order */
                uint64_t img = 0;
                elem_t e = arr[k];
#if TYPE == 8
                {
                    uint32_t u;
                    memcpy(&u, &e, 4);
                    img = u;
                }
#elif TYPE == 9
                memcpy(&img, &e, 8);
#else
                img = (uint64_t) e;
#endif
                for (b = 0; b < (int) sizeof(elem_t); b++) {
                    int shift = (fmt == SCPI_FORMAT_NORMAL) ? 8 * ((int) sizeof(elem_t) - 1 - b) : 8 * b;
                    uint8_t expect = (uint8_t) (img >> shift);
                    VASSERT((uint8_t) hx_out[hdr + k * (int) sizeof(elem_t) + b] == expect, "C17 array: elements big-endian for NORMAL, little-endian for SWAPPED");
                }
            }
        }
        VASSERT(ctx.output_count == 1, "C17 array: the complete block is one result item");
        VASSERT(ctx.arbitrary_remaining == 0, "C17 array: nothing remains announced");
        VASSERT(ctx.error_queue.count == 0, "C17 array: no error");
        if (n == COUNT) VWITNESS("full-array");
        if (n == 0) VWITNESS("empty-array");
    }
#elif PART == 4
    {
        size_t len = vin.dlen, cut = vin.split, r;
        VASSUME(len <= 8 && cut <= len);
        if (vin.fmt & 1) {
            r = SCPI_ResultArbitraryBlock(&ctx, vin.data, len);
        } else {
            /* streamed: header, then the data in two pieces */
            r = SCPI_ResultArbitraryBlockHeader(&ctx, len);
            VASSERT(ctx.output_count == 0 || len == 0, "C17 block: not counted as an item before it is complete");
            r += SCPI_ResultArbitraryBlockData(&ctx, vin.data, cut);
            if (cut < len) {
                VASSERT(ctx.output_count == 0, "C17 block: not counted as an item while data are outstanding");
                r += SCPI_ResultArbitraryBlockData(&ctx, vin.data + cut, len - cut);
            }
        }
        VASSERT(hx_out[0] == '#' && hx_out[1] == '1' && hx_out[2] == (char) ('0' + len), "C17 block: header announces the data length");
        VASSERT(hx_out_len == 3 + len && r == hx_out_len, "C17 block: header plus exactly the data");
        for (i = 0; i < 8; i++) if ((size_t) i < len) VASSERT((uint8_t) hx_out[3 + i] == vin.data[i], "C17 block: data unchanged");
        VASSERT(ctx.output_count >= 1, "C17 block: complete block counts as a result item");
        if (!(vin.fmt & 1) && cut > 0 && cut < len) VWITNESS("streamed-split");
    }
#endif
    VWITNESS("end");
}
