/* C05 - wrong, missing or surplus parameters raise the right error, never mis-delivered.
 * Real SCPI_Parse on the message  "H " <data> LF  where <data> is a SYMBOLIC string of 0..N bytes over a 16-symbol
 * alphabet {1 0 . V O N " x , SP # H F ( ) -} that contains a representative of every program-data type and of malformed
 * fragments.  The handler has a concrete signature of two typed readers (-DK1, -DK2: 0 Int32, 1 Double, 2 Bool,
 * 3 Choice{ON,NO}, 4 CopyText, 5 Number with the real unit table) whose mandatory/optional flags are symbolic.
 * Oracle: the reference program-data parser (ref488.h) decides whether the list is well formed and the type/extent of
 * every item; from that the expected outcome is computed exactly:
 *   malformed list           -> handler never runs, at least one error, all of them command errors (-1xx), result FALSE
 *   item j read by reader j  -> success with the item as written, or exactly -104 / -138 / -131 / -224 by (reader, type)
 *   no item left             -> -109 for a mandatory reader; nothing and "absent" for an optional one
 *   items left unread        -> -108 (only if the handler succeeded)
 *   a reader never returns FALSE without an error except for the absent optional parameter; result == no error raised.
 */
#include "hctx.h"
#include "scpi/units.h"
#include "libc.h"

#ifndef N
#define N 4
#endif
#ifndef K1
#define K1 0
#endif
#ifndef K2
#define K2 4
#endif
#define MAXIT 3
#ifndef LEVEL
#define LEVEL 1
#endif

#define VIN_FIELDS(F, A) \
    A(uint8_t, sel, N) \
    F(uint8_t, len) \
    F(uint8_t, mand)
#include "vin.h"

static char buf[N + 4];
static int n; /* total message length */
static int at(int i) {
    return (i >= 0 && i < n) ? (unsigned char) buf[i] : -1;
}
#include "ref488.h"

static const char alphabet[16] = {'1', '0', '.', 'V', 'O', 'N', '"', 'x', ',', ' ', '#', 'H', 'F', '(', ')', '-'};
static const scpi_choice_def_t choices[] = {{"ON", 1}, {"NO", 2}, SCPI_CHOICE_LIST_END};

static scpi_t ctx;
static scpi_error_t queue[6];

/* what the handler observed */
static int h_calls, h_ret[2], h_errs_before[2], h_errs_after[2];
static int32_t h_int[2];
static char h_txt[2][N + 2];
static size_t h_txtlen[2];
static int h_numspecial[2];

static int read_one(scpi_t * c, int kind, int j, int mandatory) {
    scpi_bool_t ok = FALSE;
    h_errs_before[j] = c->error_queue.count;
    switch (kind) {
        case 0: ok = SCPI_ParamInt32(c, &h_int[j], mandatory); break;
        case 1: { double d = 0; ok = SCPI_ParamDouble(c, &d, mandatory); break; }
        case 2: { scpi_bool_t b = FALSE; ok = SCPI_ParamBool(c, &b, mandatory); h_int[j] = b ? 1 : 0; break; }
        case 3: ok = SCPI_ParamChoice(c, choices, &h_int[j], mandatory); break;
        case 4: ok = SCPI_ParamCopyText(c, h_txt[j], N + 2, &h_txtlen[j], mandatory); break;
        default: { scpi_number_t num; num.special = FALSE; ok = SCPI_ParamNumber(c, scpi_special_numbers_def, &num, mandatory); h_numspecial[j] = num.special ? 1 : 0; break; }
    }
    h_errs_after[j] = c->error_queue.count;
    h_ret[j] = ok ? 1 : 0;
    return ok ? 1 : 0;
}

static scpi_result_t handler(scpi_t * c) {
    int m1 = vin.mand & 1, m2 = (vin.mand >> 1) & 1;
    h_calls++;
    h_ret[0] = h_ret[1] = -1;
    if (!read_one(c, K1, 0, m1)) {
        if (SCPI_ParamErrorOccurred(c)) return SCPI_RES_ERR;
        /* absent optional parameter: carry on */
    }
    if (!read_one(c, K2, 1, m2)) {
        if (SCPI_ParamErrorOccurred(c)) return SCPI_RES_ERR;
    }
    return SCPI_RES_OK;
}

static const scpi_command_t cmds[] = {{"H", handler, 0}, SCPI_CMD_LIST_END};

/* expected outcome of reader kind on an item of type t at [ts, ts+tl): 0 success, else the error code */
static int expect_code(int kind, scpi_token_type_t t, int ts, int tl) {
    int isnum = t == SCPI_TOKEN_DECIMAL_NUMERIC_PROGRAM_DATA || t == SCPI_TOKEN_HEXNUM || t == SCPI_TOKEN_OCTNUM || t == SCPI_TOKEN_BINNUM;
    int sfx = t == SCPI_TOKEN_DECIMAL_NUMERIC_PROGRAM_DATA_WITH_SUFFIX;
    int isstr = t == SCPI_TOKEN_DOUBLE_QUOTE_PROGRAM_DATA || t == SCPI_TOKEN_SINGLE_QUOTE_PROGRAM_DATA;
    int mn = t == SCPI_TOKEN_PROGRAM_MNEMONIC;
    int c0 = at(ts), c1 = at(ts + 1);
    switch (kind) {
        case 0:
            if (t == SCPI_TOKEN_DECIMAL_NUMERIC_PROGRAM_DATA) {
                /* an integer reader needs a digit right behind the optional sign ("-.5" / ".5" denote no integer) */
                int d = (c0 == '-' || c0 == '+') ? c1 : c0;
                return r_digit(d) ? 0 : SCPI_ERROR_DATA_TYPE_ERROR;
            }
            return isnum ? 0 : sfx ? SCPI_ERROR_SUFFIX_NOT_ALLOWED : SCPI_ERROR_DATA_TYPE_ERROR;
        case 1:
            return isnum ? 0 : sfx ? SCPI_ERROR_SUFFIX_NOT_ALLOWED : SCPI_ERROR_DATA_TYPE_ERROR;
        case 2:
            if (t == SCPI_TOKEN_DECIMAL_NUMERIC_PROGRAM_DATA) return 0;
            if (mn) return ((tl == 2 && c0 == 'O' && c1 == 'N') || (tl == 3 && c0 == 'O' && c1 == 'F' && at(ts + 2) == 'F')) ? 0 : SCPI_ERROR_ILLEGAL_PARAMETER_VALUE;
            return SCPI_ERROR_DATA_TYPE_ERROR; /* -138 is tolerated for a suffixed number, see the assertion */
        case 3:
            if (mn) return (tl == 2 && ((c0 == 'O' && c1 == 'N') || (c0 == 'N' && c1 == 'O'))) ? 0 : SCPI_ERROR_ILLEGAL_PARAMETER_VALUE;
            return SCPI_ERROR_DATA_TYPE_ERROR;
        case 4:
            return isstr ? 0 : SCPI_ERROR_DATA_TYPE_ERROR;
        default:
            if (isnum) return 0;
            if (sfx) {
                /* suffix = letters behind the number and optional blanks; known units spellable here: V, FV (femtovolt), F (farad), H (henry), N (newton)... */
                return -1; /* decided by the unit table: see the assertion (either success or -131) */
            }
            if (mn) return -2; /* special number or -224 */
            return SCPI_ERROR_DATA_TYPE_ERROR;
    }
}

void harness(void) {
    int i, nd, pos, k = 0, malformed = 0;
    scpi_token_type_t it_type[MAXIT];
    int it_ts[MAXIT], it_tl[MAXIT];
    scpi_bool_t res;
    VIN_INIT();
    nd = vin.len;
    VASSUME(nd <= N);
    buf[0] = 'H';
    buf[1] = ' ';
    for (i = 0; i < N; i++) buf[2 + i] = i < nd ? alphabet[vin.sel[i] & 15] : 0;
    buf[2 + nd] = '\n';
    buf[3 + nd] = 0;
    n = 3 + nd;

    /* ---- reference parse of the data list (starts behind the header's white space) */
    pos = 2;
    for (i = 0; i < MAXIT + 1; i++) {
        scpi_token_type_t t;
        int ts, tl, sw, tot;
        tot = r_data(pos, n, &t, &ts, &tl, &sw);
        if (t == SCPI_TOKEN_UNKNOWN) {
            if (!(k == 0 && !sw && pos + tot == n - 1)) malformed = 1; /* nothing but blanks up to the terminator = no data */
            break;
        }
        if (k < MAXIT) { it_type[k] = t; it_ts[k] = ts; it_tl[k] = tl; }
        k++;
        pos += tot;
        if (at(pos) == ',') pos++;
        else {
            if (pos != n - 1) malformed = 1;
            break;
        }
    }
    VASSUME(k <= MAXIT);

    ctx.cmdlist = cmds;
    ctx.interface = &hx_interface;
    ctx.units = scpi_units_def;
    ctx.error_queue.data = queue;
    ctx.error_queue.size = 6;
#if LEVEL == 1
    /* reader level: the data list (as SCPI_Parse hands it to the handler) is read by the two typed readers directly; the
     * unit detector and the post-handler accounting are checked separately (C13 unit grammar, LEVEL 2 templates) because the
     * whole path on symbolic data needed > 12 GB even for 3 data bytes */
    VASSUME(!malformed);
    {
        /* exactly what the unit detector hands over: the list starts behind the header's blanks; no list -> length 0 */
        int dstart = 2 + r_wsrun(2);
        ctx.param_list.lex_state.buffer = buf + dstart;
        ctx.param_list.lex_state.pos = buf + dstart;
        ctx.param_list.lex_state.len = k == 0 ? 0 : n - 1 - dstart;
    }
    ctx.input_count = 0;
    h_calls = 1;
    h_ret[0] = h_ret[1] = -1;
    res = TRUE;
    if (!read_one(&ctx, K1, 0, vin.mand & 1) && ctx.error_queue.count > 0) res = FALSE;
    if (res) {
        if (!read_one(&ctx, K2, 1, (vin.mand >> 1) & 1) && ctx.error_queue.count > 0) res = FALSE;
    }
    if (res && ctx.param_list.lex_state.pos < ctx.param_list.lex_state.buffer + ctx.param_list.lex_state.len) SCPI_ErrorPush(&ctx, SCPI_ERROR_PARAMETER_NOT_ALLOWED); /* what processCommand does */
#else
    res = SCPI_Parse(&ctx, buf, n);

    VASSERT((res ? 1 : 0) == (ctx.error_queue.count == 0 ? 1 : 0), "C05 the parse result is FALSE exactly when the message raised an error");
#endif
    if (malformed) {
        VASSERT(h_calls == 0, "C05 text that is not well-formed program data never reaches a handler");
        VASSERT(ctx.error_queue.count >= 1, "C05 a unit with malformed data queues an error");
        for (i = 0; i < 6; i++) if (i < ctx.error_queue.count) VASSERT(queue[i].error_code <= -100 && queue[i].error_code >= -199, "C05 a unit with malformed data queues command errors (-1xx)");
#if LEVEL != 1
        VWITNESS("malformed");
#endif
    } else {
        int m[2], kinds[2], j, stop = 0, consumed = 0, exp_err = 0, handler_failed = 0;
        m[0] = vin.mand & 1;
        m[1] = (vin.mand >> 1) & 1;
        kinds[0] = K1;
        kinds[1] = K2;
        VASSERT(h_calls == 1, "C05 a unit with well-formed data runs its handler once");
        for (j = 0; j < 2; j++) {
            if (!stop) {
                if (consumed >= k) {
                    /* no item left */
                    VASSERT(h_ret[j] == 0, "C05 a reader reports failure when there is no parameter left");
                    if (m[j]) {
                        VASSERT(h_errs_after[j] == h_errs_before[j] + 1 && queue[h_errs_before[j]].error_code == SCPI_ERROR_MISSING_PARAMETER, "C05 a missing mandatory parameter queues -109");
                        exp_err = 1;
                        stop = 1;
                        handler_failed = 1;
                    } else {
                        VASSERT(h_errs_after[j] == h_errs_before[j], "C05 an absent optional parameter queues nothing");
                    }
                } else {
                    int code = expect_code(kinds[j], it_type[consumed], it_ts[consumed], it_tl[consumed]);
                    if (code == 0) {
                        VASSERT(h_ret[j] == 1 && h_errs_after[j] == h_errs_before[j], "C05 a parameter of the right type is delivered without error");
                        if (kinds[j] == 4) {
                            /* text delivered whole: the characters between the quotes (no doubled quote fits here unless written) */
                            int tl = it_tl[consumed] - 2, q, out = 0, p2;
                            for (q = 0, p2 = 0; q < N; q++) {
                                if (p2 < tl) {
                                    char c = (char) at(it_ts[consumed] + 1 + p2);
                                    VASSERT(h_txt[j][out] == c, "C05 a text item is delivered whole, whatever blanks surround the commas");
                                    out++;
                                    p2 += (c == at(it_ts[consumed])) ? 2 : 1;
                                }
                            }
                            VASSERT((int) h_txtlen[j] == out, "C05 a text item is delivered with its full length");
                        }
                        if (kinds[j] == 0 && it_type[consumed] == SCPI_TOKEN_DECIMAL_NUMERIC_PROGRAM_DATA) {
                            /* plain [sign]digits: exact value */
                            int p2 = it_ts[consumed], neg = 0, plain = 1, q;
                            int32_t v = 0;
                            if (at(p2) == '-') { neg = 1; p2++; } else if (at(p2) == '+') p2++;
                            for (q = 0; q < N; q++) if (p2 + q < it_ts[consumed] + it_tl[consumed]) { if (r_digit(at(p2 + q))) v = v * 10 + (at(p2 + q) - '0'); else plain = 0; }
                            if (plain) VASSERT(h_int[j] == (neg ? -v : v), "C05 an integer item is delivered with the value as written");
                        }
                        consumed++;
                    } else if (code == -1 || code == -2) {
                        /* decided by the unit / special-number table: success, or exactly -131 (unknown suffix) / -224 (unknown mnemonic) */
                        int want = code == -1 ? SCPI_ERROR_INVALID_SUFFIX : SCPI_ERROR_ILLEGAL_PARAMETER_VALUE;
                        if (h_ret[j] == 1) {
                            VASSERT(h_errs_after[j] == h_errs_before[j], "C05 an accepted number raises no error");
                            consumed++;
                        } else {
                            VASSERT(h_errs_after[j] == h_errs_before[j] + 1 && queue[h_errs_before[j]].error_code == want, "C05 an unknown suffix queues -131, an unknown special mnemonic -224");
                            exp_err = 1;
                            stop = 1;
                            handler_failed = 1;
                        }
                    } else {
                        VASSERT(h_ret[j] == 0, "C05 a parameter of the wrong kind makes the reader fail");
                        VASSERT(h_errs_after[j] == h_errs_before[j] + 1, "C05 a typed reader never reports failure without queuing exactly one error");
                        if (kinds[j] == 2 && it_type[consumed] == SCPI_TOKEN_DECIMAL_NUMERIC_PROGRAM_DATA_WITH_SUFFIX) {
                            VASSERT(queue[h_errs_before[j]].error_code == SCPI_ERROR_DATA_TYPE_ERROR || queue[h_errs_before[j]].error_code == SCPI_ERROR_SUFFIX_NOT_ALLOWED, "C05 a suffixed number given to a boolean reader queues -104 or -138");
                        } else {
                            VASSERT(queue[h_errs_before[j]].error_code == code, "C05 wrong data type queues -104, a suffix where none is allowed -138, an unknown choice -224");
                        }
                        exp_err = 1;
                        stop = 1;
                        handler_failed = 1;
                    }
                }
            }
        }
        if (!handler_failed) {
            if (consumed < k) {
                VASSERT(ctx.error_queue.count == 1 && queue[0].error_code == SCPI_ERROR_PARAMETER_NOT_ALLOWED, "C05 parameters left unread by a handler that otherwise succeeded queue -108");
#if N >= 5
                VWITNESS("surplus-parameter");
#endif
            } else {
                VASSERT(ctx.error_queue.count == 0, "C05 a correct parameter list raises no error");
                if (k == 2) VWITNESS("two-items-delivered");
            }
        } else {
            VASSERT(ctx.error_queue.count == 1, "C05 a failing reader's error is the only error of the unit (no -200, no -108 on top)");
        }
        (void) exp_err;
    }
    VWITNESS("end");
}
