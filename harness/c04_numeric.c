/* C04 - numeric parameters decode to the value their literal denotes.
 *   -DPART=1  decimal literals through SCPI_ParamDouble / SCPI_ParamFloat / SCPI_ParamNumber: the text handed to libc
 *             strtod/strtof must be consumed up to the end of the literal (then the value is libc's correctly rounded
 *             conversion of exactly that literal - libc's rounding is trusted, it is not repository code); additionally
 *             plain integer mantissas of <= 15 digits are compared exactly.
 *   -DPART=2  decimal integer literals and #H/#Q/#B literals through SCPI_ParamInt32/UInt32/Int64/UInt64 and
 *             SCPI_ParamDouble/Float: exact value recomputed by Horner here.
 *   -DPART=3  SCPI_ParamNumber with a unit suffix: symbolic index into the REAL unit table scpi_units_def, symbolic letter
 *             case, 0..2 blanks between number and suffix: unit tag and value == v * multiplier; special mnemonics -> tag.
 * The literal is a symbolic string of length 1..N placed in a NUL-terminated buffer (the documented precondition of the
 * parameter readers: they run on the NUL-terminated input buffer).
 */
#include "hctx.h"
#include "scpi/units.h"
#include "lexer_private.h"
#include "libc.h"

#ifndef N
#define N 8
#endif
#ifndef PART
#define PART 1
#endif
#ifndef READER
#define READER 0
#endif
#ifndef SPECIALS
#define SPECIALS 0
#endif

#define VIN_FIELDS(F, A) \
    A(uint8_t, sel, N) \
    F(uint8_t, len) \
    F(uint8_t, reader) \
    F(uint8_t, unit_idx) \
    F(uint32_t, casemask) \
    F(uint8_t, blanks) \
    F(uint8_t, tail)
#include "vin.h"

static char buf[N + 24];
static int n;
static int at(int i) {
    return (i >= 0 && i < n) ? (unsigned char) buf[i] : -1;
}
#include "ref488.h"

static scpi_t ctx;
static scpi_error_t queue[4];

static void setparam(int len) {
    ctx.interface = &hx_interface;
    ctx.error_queue.data = queue;
    ctx.error_queue.size = 4;
    ctx.units = scpi_units_def;
    ctx.param_list.lex_state.buffer = buf;
    ctx.param_list.lex_state.pos = buf;
    ctx.param_list.lex_state.len = len;
    ctx.input_count = 0;
}

#if PART == 1
static const char alphabet[16] = {'0', '1', '5', '9', '-', '+', '.', 'E', 'e', ' ', '\t', '0', '2', '7', '3', '8'};
#elif PART == 2
static const char alphabet[32] = {'0', '1', '2', '3', '4', '5', '6', '7', '8', '9', 'A', 'B', 'C', 'D', 'E', 'F',
                                  'a', 'b', 'c', 'd', 'e', 'f', '#', 'H', 'h', 'Q', 'q', '-', '+', 'G', '0', '1'};
#endif

void harness(void) {
    int i;
    VIN_INIT();
#if PART == 1
    {
        int k, rd = vin.reader % 3;
        scpi_bool_t ok;
        double dv = 0;
        float fv = 0;
        scpi_number_t num;
        n = vin.len;
        VASSUME(n >= 1 && n <= N);
        for (i = 0; i < N; i++) buf[i] = i < n ? alphabet[vin.sel[i] & 15] : 0;
        buf[N] = 0;
        /* the whole text is one 488.2 decimal literal (no blank in front or behind: that is the item's, not the literal's) */
        k = r_decimal(0);
        VASSUME(k == n);
#ifdef KF_F08
        /* known finding F08: a blank between mantissa and exponent (or behind the E) ends libc's conversion early */
        for (i = 0; i < N; i++) VASSUME(!(i < n && (buf[i] == ' ' || buf[i] == '\t')));
#endif
        setparam(n);
        vm_strto_calls = 0;
        if (rd == 0) ok = SCPI_ParamDouble(&ctx, &dv, TRUE);
        else if (rd == 1) ok = SCPI_ParamFloat(&ctx, &fv, TRUE);
        else {
            ok = SCPI_ParamNumber(&ctx, scpi_special_numbers_def, &num, TRUE);
            dv = num.content.value;
        }
        VASSERT(ok, "C04 a decimal literal is accepted by the floating-point readers");
        VASSERT(ctx.error_queue.count == 0, "C04 a decimal literal raises no error");
        VASSERT(vm_strto_calls == 1 && vm_strto_nptr == buf, "C04 the literal is converted once, from its first character");
        VASSERT(vm_strto_consumed == n, "C04 the conversion consumes exactly the literal (mantissa, blanks, exponent), so the value is that of the literal");
        if (rd != 1) VASSERT(dv == vm_strtod_value || (dv != dv && vm_strtod_value != vm_strtod_value), "C04 the reader returns the converted value unchanged");
        else VASSERT(fv == (float) vm_strtod_value || fv != fv, "C04 the float reader returns the converted value unchanged");
        if (rd == 2) VASSERT(!num.special && num.unit == SCPI_UNIT_NONE && num.base == 10, "C04 plain number: no unit, base 10");
        for (i = 0; i < N; i++) if (i < n && (buf[i] == 'E' || buf[i] == 'e')) { if (n >= 4) VWITNESS("exponent"); }
    }
#elif PART == 2
    {
        /* integer literals: [sign]digits (decimal) or #H/#Q/#B digits; READER selects the typed reader */
        int j = 0, neg = 0, base = 10, nd;
        uint64_t mag = 0;
        int fits;
        scpi_bool_t ok = FALSE;
        n = vin.len;
        VASSUME(n >= 1 && n <= N);
        for (i = 0; i < N; i++) buf[i] = i < n ? alphabet[vin.sel[i] & 31] : 0;
        buf[N] = 0;
#ifdef DECPREFIX
        /* boundary literals: a concrete decimal prefix (the leading digits of the type's extreme value) followed by
         * symbolic characters - reaches the 10/11/19/20-character literals at the edge of each reader's range */
        {
            static const char prefix[] = DECPREFIX;
            VASSUME(n >= (int) sizeof prefix - 1);
            for (i = 0; i < (int) sizeof prefix - 1; i++) buf[i] = prefix[i];
        }
#endif
#ifdef HEXONLY
        VASSUME(at(0) == '#' && (at(1) == 'H' || at(1) == 'h'));
#endif
        if (at(0) == '#') {
            int c = at(1);
            base = (c == 'H' || c == 'h') ? 16 : (c == 'Q' || c == 'q') ? 8 : (c == 'B' || c == 'b') ? 2 : 0;
            VASSUME(base != 0);
            j = 2;
        } else {
            if (at(0) == '-') { neg = 1; j = 1; } else if (at(0) == '+') j = 1;
        }
        nd = n - j;
        VASSUME(nd >= 1);
        for (i = 0; i < N; i++) {
            if (i >= j && i < n) {
                int c = at(i), d = r_digit(c) ? c - '0' : (c >= 'a' && c <= 'f') ? c - 'a' + 10 : (c >= 'A' && c <= 'F') ? c - 'A' + 10 : 99;
                VASSUME(d < base);
#ifdef DECPREFIX
                VASSUME(mag <= (0xFFFFFFFFFFFFFFFFull - (uint64_t) d) / 10u); /* the literal fits 64 bits */
#endif
                mag = mag * (uint64_t) base + (uint64_t) d; /* N <= 16 hex digits: no overflow */
            }
        }
        setparam(n);
#if READER == 0
        {
            int32_t v = 0;
            fits = neg ? mag <= 2147483648ull : mag <= 2147483647ull;
            if (base != 10) fits = mag <= 0xFFFFFFFFull; /* nondecimal literals are bit patterns of the type width */
            VASSUME(fits);
            ok = SCPI_ParamInt32(&ctx, &v, TRUE);
            VASSERT(ok && v == (int32_t) (neg ? (uint32_t) (0u - (uint32_t) mag) : (uint32_t) mag), "C04 integer literal decodes exactly as int32");
        }
#elif READER == 1
        {
            uint32_t v = 0;
            VASSUME(!neg && mag <= 0xFFFFFFFFull);
            ok = SCPI_ParamUInt32(&ctx, &v, TRUE);
            VASSERT(ok && v == (uint32_t) mag, "C04 integer literal decodes exactly as uint32");
        }
#elif READER == 2
        {
            int64_t v = 0;
            fits = neg ? mag <= 9223372036854775808ull : mag <= 9223372036854775807ull;
            if (base != 10) fits = 1;
            VASSUME(fits);
            ok = SCPI_ParamInt64(&ctx, &v, TRUE);
            VASSERT(ok && v == (int64_t) (neg ? (0ull - mag) : mag), "C04 integer literal decodes exactly as int64");
        }
#elif READER == 3
        {
            uint64_t v = 0;
            VASSUME(!neg);
            ok = SCPI_ParamUInt64(&ctx, &v, TRUE);
            VASSERT(ok && v == mag, "C04 integer literal decodes exactly as uint64");
        }
#elif READER == 4
        {
            double v = 0;
            VASSUME(nd <= 15 || base != 10);
            VASSUME(mag < (1ull << 53));
            ok = SCPI_ParamDouble(&ctx, &v, TRUE);
            VASSERT(ok && v == (neg ? -(double) mag : (double) mag), "C04 integer literal decodes exactly as double");
        }
#else
        {
            float v = 0;
            VASSUME(mag < (1ull << 24));
            VASSUME(nd <= 15 || base != 10);
            ok = SCPI_ParamFloat(&ctx, &v, TRUE);
            VASSERT(ok && v == (neg ? -(float) mag : (float) mag), "C04 integer literal decodes exactly as float");
        }
#endif
        VASSERT(ctx.error_queue.count == 0, "C04 an in-range integer literal raises no error");
        if (base == 16 && nd >= 2) VWITNESS("hex");
#if READER == 0 || READER == 2 || READER == 4 || READER == 5
        if (base == 10 && neg) VWITNESS("negative-decimal");
#endif
    }
#else
    {
        /* number + unit suffix from the real table, or a special mnemonic */
        int nunits = 0, ui, ul = 0, b, p = 0, special = SPECIALS;
        const char * name;
        scpi_number_t num;
        scpi_bool_t ok;
        while (scpi_units_def[nunits].name != NULL) nunits++;
        if (!special) {
            ui = vin.unit_idx;
            VASSUME(ui < nunits);
#ifdef UNIT_STRIDE
            VASSUME(ui % UNIT_STRIDE == UNIT_CLASS); /* one residue class of table rows per case */
#endif
            name = scpi_units_def[ui].name;
            buf[p++] = '2';
            buf[p++] = '5';
            b = vin.blanks;
            VASSUME(b <= 2);
            for (i = 0; i < 2; i++) if (i < b) buf[p++] = ' ';
            while (name[ul] && ul < 12) {
                char c = name[ul];
                if (c >= 'A' && c <= 'Z' && ((vin.casemask >> ul) & 1)) c = (char) (c - 'A' + 'a');
                buf[p++] = c;
                ul++;
            }
            buf[p] = 0;
            n = p;
            setparam(n);
            ok = SCPI_ParamNumber(&ctx, scpi_special_numbers_def, &num, TRUE);
            VASSERT(ok, "C04 a number with a suffix from the unit table is accepted in any letter case, with or without blanks");
            VASSERT(ctx.error_queue.count == 0, "C04 a known suffix raises no error");
            VASSERT(!num.special && num.unit == scpi_units_def[ui].unit, "C04 the suffix selects its base unit");
            VASSERT(num.content.value == 25.0 * scpi_units_def[ui].mult, "C04 the value is multiplied by the suffix's multiplier");
            if (b == 2) VWITNESS("two-blanks");
            (void) special;
        } else {
            int ns = 0, si, sl = 0, shortform = (vin.tail >> 1) & 1, cut;
            while (scpi_special_numbers_def[ns].name != NULL) ns++;
            si = vin.unit_idx;
            VASSUME(si < ns);
            name = scpi_special_numbers_def[si].name;
            /* short form = leading upper-case part, long form = whole name */
            cut = 0;
            while (name[cut] && !(name[cut] >= 'a' && name[cut] <= 'z')) cut++;
            while (name[sl] && sl < 12 && (!shortform || sl < cut)) {
                char c = name[sl];
                if (c >= 'A' && c <= 'Z' && ((vin.casemask >> sl) & 1)) c = (char) (c - 'A' + 'a');
                if (c >= 'a' && c <= 'z' && ((vin.casemask >> (sl + 12)) & 1)) c = (char) (c - 'a' + 'A');
                buf[p++] = c;
                sl++;
            }
            buf[p] = 0;
            n = p;
            setparam(n);
            ok = SCPI_ParamNumber(&ctx, scpi_special_numbers_def, &num, TRUE);
            VASSERT(ok && num.special && num.content.tag == scpi_special_numbers_def[si].tag, "C04 special mnemonics decode to their tags in short and long form, any letter case");
            VASSERT(ctx.error_queue.count == 0, "C04 a special mnemonic raises no error");
            if (shortform) VWITNESS("special-short-form");
        }
    }
#endif
    VWITNESS("end");
}
