/* C08 (buffer logic) / C01 (input overrun guard) - functional specification of SCPI_Input's buffer management.
 * Real SCPI_Input with an ABSTRACT unit detector (unit = bytes up to and including the first ';' or LF; it satisfies the
 * stability lemma by construction, the real detector is shown to satisfy it in c08_chunking.c PART 2) and a recording
 * SCPI_Parse stub.  One context with an input buffer of BUFSZ bytes; a symbolic stream of up to N bytes over all byte
 * values is delivered in one, two or three chunks cut at symbolic positions, followed by a zero-length call.
 * Specification, independent of the chunking: the executed messages are the segments of the stream ending at each LF, the
 * pending remainder is what follows the last LF, the buffer stays NUL-terminated, the zero-length call executes the
 * remainder.  With -DOVERRUN=1 the buffer is SMALLER than the stream may need: a chunk that does not fit (one byte is
 * kept for the NUL) must reset the buffer, queue -363 and return FALSE without writing outside the buffer (the buffer is
 * an exact-size object), and the input call returns what the last executed message returned otherwise.
 */
#include "scpi/scpi.h"
#include "parser_private.h"

#ifndef N
#define N 6
#endif
#ifndef BUFSZ
#define BUFSZ (N + 1)
#endif
#ifndef OVERRUN
#define OVERRUN 0
#endif
#define LOGSZ (2 * N + 4)

#define VIN_FIELDS(F, A) \
    A(char, stream, N) \
    F(uint8_t, total) \
    F(uint8_t, c1) \
    F(uint8_t, c2) \
    F(uint8_t, parse_result)
#include "vin.h"

static scpi_t ctx;
static char buf[BUFSZ];
static scpi_error_t queue[4];
static char plog[LOGSZ];
static int ploglen, pcalls;

scpi_bool_t SCPI_Parse(scpi_t * context, char * data, int len) {
    int i;
    (void) context;
    pcalls++;
    /* a message that does not end in a line terminator (flush) must be followed by a NUL: the number readers convert with
     * strtol/strtod and stop only there.  (Messages ending in CR/LF need no NUL: conversion stops at the terminator; the
     * library indeed leaves a stale byte behind a remainder it moved to the front.) */
    if (len > 0 && data[len - 1] != '\n' && data[len - 1] != '\r') VASSERT(data[len] == 0, "C08 an unterminated message handed to the parser (zero-length call) is NUL-terminated in the buffer");
    for (i = 0; i < N + 1; i++) if (i < len && ploglen < LOGSZ) plog[ploglen++] = data[i];
    if (ploglen < LOGSZ) plog[ploglen++] = 0x01;
    return (vin.parse_result >> (pcalls & 7)) & 1 ? TRUE : FALSE;
}

int scpiParser_detectProgramMessageUnit(scpi_parser_state_t * state, char * buffer, int len) {
    int i = 0;
    state->programHeader.ptr = buffer;
    state->programHeader.len = 0;
    state->programHeader.type = SCPI_TOKEN_UNKNOWN;
    state->programData = state->programHeader;
    state->numberOfParameters = 0;
    state->termination = SCPI_MESSAGE_TERMINATION_NONE;
    while (i < len && buffer[i] != ';' && buffer[i] != '\n') i++;
    if (i > 0) {
        state->programHeader.len = i;
        state->programHeader.type = SCPI_TOKEN_COMPOUND_PROGRAM_HEADER;
    }
    if (i < len) {
        state->termination = buffer[i] == ';' ? SCPI_MESSAGE_TERMINATION_SEMICOLON : SCPI_MESSAGE_TERMINATION_NL;
        i++;
    }
    return i;
}

void harness(void) {
    char expect[LOGSZ];
    int i, total, c1, c2, elen = 0, segstart = 0, rem;
    VIN_INIT();
    total = vin.total;
    c1 = vin.c1;
    c2 = vin.c2;
    VASSUME(total >= 1 && total <= N);
    VASSUME(c1 >= 1 && c1 <= c2 && c2 <= total);
    ctx.buffer.data = buf;
    ctx.buffer.length = BUFSZ;
    ctx.error_queue.data = queue;
    ctx.error_queue.size = 4;
#if !OVERRUN
    /* reference: segments ending in LF, marker 0x01 after each */
    for (i = 0; i < N; i++) {
        if (i < total && vin.stream[i] == '\n') {
            int l = i + 1 - segstart, k;
            for (k = 0; k < N; k++) if (k < l) expect[elen++] = vin.stream[segstart + k];
            expect[elen++] = 0x01;
            segstart = i + 1;
        }
    }
    rem = total - segstart;
    SCPI_Input(&ctx, vin.stream, c1);
    if (c2 > c1) SCPI_Input(&ctx, vin.stream + c1, c2 - c1);
    if (total > c2) SCPI_Input(&ctx, vin.stream + c2, total - c2);
    VASSERT(ploglen == elen, "C08 the executed messages are the LF-terminated segments of the stream, whatever the chunking (count/length)");
    for (i = 0; i < LOGSZ; i++) if (i < elen && i < ploglen) VASSERT(plog[i] == expect[i], "C08 the executed messages are the LF-terminated segments of the stream, whatever the chunking (content)");
    VASSERT((int) ctx.buffer.position == rem, "C08 exactly the bytes after the last terminator stay pending");
    for (i = 0; i < N; i++) if (i < rem) VASSERT(buf[i] == vin.stream[segstart + i], "C08 the pending remainder is the unconsumed tail of the stream");
    VASSERT(ctx.error_queue.count == 0, "C08 a stream that fits the buffer raises no input error");
    {
        int c0 = pcalls;
        SCPI_Input(&ctx, NULL, 0);
        VASSERT(pcalls == c0 + 1 && ctx.buffer.position == 0, "C08 a zero-length call executes what is buffered as one message and leaves nothing pending");
    }
    if (elen > 0 && rem > 0 && c1 < c2 && c2 < total) VWITNESS("three-chunks-executed-and-pending");
#else
    /* overrun guard: pending prefix without terminator, then a chunk of arbitrary size */
    {
        scpi_bool_t r;
        int fits, calls0;
        for (i = 0; i < N; i++) if (i < c1) VASSUME(vin.stream[i] != '\n');
        VASSUME(c1 <= BUFSZ - 1);
        SCPI_Input(&ctx, vin.stream, c1);
        VASSERT((int) ctx.buffer.position == c1, "P: prefix without terminator stays pending");
        VASSUME(total > c1);
        calls0 = pcalls;
        r = SCPI_Input(&ctx, vin.stream + c1, total - c1);
        fits = (total - c1) <= (BUFSZ - c1 - 1);
        if (!fits) {
            VASSERT(!r, "C01 a chunk that overruns the input buffer makes the input call return FALSE");
            VASSERT(ctx.buffer.position == 0 && buf[0] == 0, "C01 an overrun resets the input buffer");
            VASSERT(ctx.error_queue.count == 1 && queue[0].error_code == SCPI_ERROR_INPUT_BUFFER_OVERRUN, "C01 an overrun queues -363");
            VASSERT(pcalls == calls0, "C01 nothing is executed on an overrun");
            VWITNESS("overrun");
        } else {
            VASSERT(ctx.error_queue.count == 0, "C01 a chunk that fits raises no input error");
            VASSERT(ctx.buffer.position < BUFSZ, "C01 the pending length stays inside the buffer, one byte spare for the NUL");
            if (pcalls > calls0) VASSERT((r ? 1 : 0) == ((vin.parse_result >> (pcalls & 7)) & 1), "C05 the input call returns what the last executed message returned");
            else VASSERT(r, "C05 the input call returns TRUE when nothing was executed and nothing overran");
            if (pcalls > calls0) VWITNESS("fits-and-executes");
        }
    }
#endif
    VWITNESS("end");
}
