/* C11 / C12 - status-register coherence, event classification / latching, service request.
 * One inductive step: ARBITRARY register file (all ten 16-bit registers) and error-queue fill level satisfying the
 * coherence invariant, then ONE arbitrary operation (-DOP=n selects the operation family; its arguments are
 * symbolic), then the invariant (C11, -DPROP=11) or the transition relation (C12, -DPROP=12) is asserted.
 * Because the pre-state is any state satisfying the invariant - not only states some history reaches - a pass
 * covers histories of every length.
 * Queue capacity: -DCAP=n (1..4).
 */
#define HX_WRITE_IGNORE 1
#include "hctx.h"
#include "scpi/minimal.h"
#include "fifo_private.h"

#ifndef CAP
#define CAP 2
#endif
#ifndef OP
#define OP 1
#endif
#ifndef PROP
#define PROP 11
#endif

#define VIN_FIELDS(F, A) \
    A(uint16_t, reg, 10) \
    F(uint8_t, qcount) \
    F(uint8_t, qrd) \
    A(int16_t, qcode, 4) \
    F(uint8_t, name) \
    F(uint16_t, val) \
    F(int16_t, code) \
    F(uint8_t, ndig) \
    A(uint8_t, dig, 5)
#include "vin.h"

static scpi_t ctx;
static scpi_error_t queue[CAP];
static char pbuf[8];

static int coherent(const scpi_reg_val_t * r, int count) {
    int ok = 1;
    scpi_reg_val_t stb = r[SCPI_REG_STB];
    ok &= (((stb & STB_ESR) != 0) == ((r[SCPI_REG_ESR] & r[SCPI_REG_ESE]) != 0));
    ok &= (((stb & STB_OPS) != 0) == ((r[SCPI_REG_OPER] & r[SCPI_REG_OPERE]) != 0));
    ok &= (((stb & STB_QES) != 0) == ((r[SCPI_REG_QUES] & r[SCPI_REG_QUESE]) != 0));
    ok &= (((stb & STB_QMA) != 0) == (count > 0));
    ok &= (((stb & STB_SRQ) != 0) == ((stb & (scpi_reg_val_t) ~STB_SRQ & r[SCPI_REG_SRE]) != 0));
    return ok;
}

static scpi_reg_val_t esr_class(int code) {
    if (code <= -100 && code >= -199) return ESR_CER;
    if (code <= -200 && code >= -299) return ESR_EER;
    if (code <= -300 && code >= -399) return ESR_DER;
    if (code >= 1) return ESR_DER;
    if (code <= -400 && code >= -499) return ESR_QER;
    if (code <= -500 && code >= -599) return ESR_PON;
    if (code <= -600 && code >= -699) return ESR_URQ;
    if (code <= -700 && code >= -799) return ESR_REQ;
    if (code <= -800 && code >= -899) return ESR_OPC;
    return 0;
}

static void set_param(void) {
    int i, n = vin.ndig;
    VASSUME(n >= 1 && n <= 5);
    for (i = 0; i < 5; i++) {
        VASSUME(vin.dig[i] <= 9);
        pbuf[i] = i < n ? (char) ('0' + vin.dig[i]) : 0;
    }
    pbuf[5] = 0;
    ctx.param_list.lex_state.buffer = pbuf;
    ctx.param_list.lex_state.pos = pbuf;
    ctx.param_list.lex_state.len = n;
    ctx.input_count = 0;
}

void harness(void) {
    scpi_reg_val_t pre[10];
    int i, count0, count1;
    int mss0, mss1;
    scpi_reg_name_t name;
    int explicit_write = -1; /* register explicitly written by the operation, if any */
    int cond_write = -1;
    scpi_error_t e;

    VIN_INIT();
    memset(&ctx, 0, sizeof ctx);
    ctx.interface = &hx_interface;
    for (i = 0; i < 10; i++) ctx.registers[i] = vin.reg[i];
    VASSUME(vin.qcount <= CAP && vin.qrd < CAP);
    ctx.error_queue.data = queue;
    ctx.error_queue.size = CAP;
    ctx.error_queue.count = vin.qcount;
    ctx.error_queue.rd = vin.qrd;
    ctx.error_queue.wr = (int16_t) ((vin.qrd + vin.qcount) % CAP);
    for (i = 0; i < CAP; i++) {
        queue[i].error_code = vin.qcode[i];
#if USE_DEVICE_DEPENDENT_ERROR_INFORMATION
        queue[i].device_dependent_info = NULL;
#endif
    }
    count0 = vin.qcount;
    VASSUME(coherent(ctx.registers, count0));
    for (i = 0; i < 10; i++) pre[i] = ctx.registers[i];
    mss0 = (pre[SCPI_REG_STB] & STB_SRQ) != 0;

    name = (scpi_reg_name_t) vin.name;
#if OP == 1
    VASSUME(vin.name >= 1 && vin.name <= 9);
    SCPI_RegSet(&ctx, name, vin.val);
    explicit_write = vin.name;
#elif OP == 2
    VASSUME(vin.name >= 1 && vin.name <= 9);
    SCPI_RegSetBits(&ctx, name, vin.val);
    explicit_write = vin.name;
#elif OP == 3
    VASSUME(vin.name >= 1 && vin.name <= 9);
    SCPI_RegClearBits(&ctx, name, vin.val);
    explicit_write = vin.name;
#elif OP == 4
    SCPI_ErrorPush(&ctx, vin.code);
#elif OP == 5
    SCPI_ErrorPop(&ctx, &e);
#elif OP == 6
    SCPI_ErrorClear(&ctx);
#elif OP == 7
    SCPI_CoreCls(&ctx);
#elif OP == 8
    SCPI_CoreEsrQ(&ctx);
#elif OP == 9
    set_param();
    SCPI_CoreEse(&ctx);
    explicit_write = SCPI_REG_ESE;
#elif OP == 10
    set_param();
    SCPI_CoreSre(&ctx);
    explicit_write = SCPI_REG_SRE;
#elif OP == 11
    SCPI_StatusQuestionableEventQ(&ctx);
#elif OP == 12
    SCPI_StatusOperationEventQ(&ctx);
#elif OP == 13
    set_param();
    SCPI_StatusQuestionableEnable(&ctx);
    explicit_write = SCPI_REG_QUESE;
#elif OP == 14
    set_param();
    SCPI_StatusOperationEnable(&ctx);
    explicit_write = SCPI_REG_OPERE;
#elif OP == 15
    SCPI_StatusPreset(&ctx);
#elif OP == 16
    SCPI_CoreOpc(&ctx);
#elif OP == 17
    SCPI_SystemErrorNextQ(&ctx);
#else
#error unknown OP
#endif
    count1 = ctx.error_queue.count;
    mss1 = (ctx.registers[SCPI_REG_STB] & STB_SRQ) != 0;
    if (explicit_write == SCPI_REG_OPERC || explicit_write == SCPI_REG_QUESC) cond_write = explicit_write;

#if PROP == 11
    VASSERT(count1 >= 0 && count1 <= CAP, "C11 queue fill level stays within capacity");
    {
        scpi_reg_val_t * r = ctx.registers;
        scpi_reg_val_t stb = r[SCPI_REG_STB];
        VASSERT(((stb & STB_ESR) != 0) == ((r[SCPI_REG_ESR] & r[SCPI_REG_ESE]) != 0), "C11 STB bit 5 (ESB) == ((ESR & ESE) != 0)");
        VASSERT(((stb & STB_OPS) != 0) == ((r[SCPI_REG_OPER] & r[SCPI_REG_OPERE]) != 0), "C11 STB bit 7 == ((OPER event & OPER enable) != 0)");
        VASSERT(((stb & STB_QES) != 0) == ((r[SCPI_REG_QUES] & r[SCPI_REG_QUESE]) != 0), "C11 STB bit 3 == ((QUES event & QUES enable) != 0)");
        VASSERT(((stb & STB_QMA) != 0) == (count1 > 0), "C11 STB bit 2 (error available) == queue non-empty");
        VASSERT(((stb & STB_SRQ) != 0) == ((stb & (scpi_reg_val_t) ~STB_SRQ & r[SCPI_REG_SRE]) != 0), "C11 STB bit 6 (MSS) == ((STB & ~0x40 & SRE) != 0)");
    }
#else
    /* ---- C12 (a): classification of a queued error */
#if OP == 4
    {
        scpi_reg_val_t expect = pre[SCPI_REG_ESR] | esr_class(vin.code);
        scpi_reg_val_t got = ctx.registers[SCPI_REG_ESR];
        if (count0 == CAP) {
            /* push onto a full queue also queues -350 (device-specific): DER may additionally be set */
            VASSERT(got == expect || got == (expect | ESR_DER), "C12 a queued error sets exactly the ESR bit of its class (overflow: plus DER tolerated)");
        } else {
            VASSERT(got == expect, "C12 a queued error sets exactly the ESR bit of its class");
        }
    }
#endif
    /* ---- C12 (b): latching and persistence of event bits */
    if (cond_write == SCPI_REG_OPERC) {
        scpi_reg_val_t rise = (scpi_reg_val_t) (~pre[SCPI_REG_OPERC] & ctx.registers[SCPI_REG_OPERC]);
        VASSERT(ctx.registers[SCPI_REG_OPER] == (pre[SCPI_REG_OPER] | rise), "C12 0->1 condition change latches exactly that bit in the OPER event register");
    }
    if (cond_write == SCPI_REG_QUESC) {
        scpi_reg_val_t rise = (scpi_reg_val_t) (~pre[SCPI_REG_QUESC] & ctx.registers[SCPI_REG_QUESC]);
        VASSERT(ctx.registers[SCPI_REG_QUES] == (pre[SCPI_REG_QUES] | rise), "C12 0->1 condition change latches exactly that bit in the QUES event register");
    }
    {
        int esr_may_clear = (OP == 7) || (OP == 8) || explicit_write == SCPI_REG_ESR;
        int oper_may_clear = (OP == 7) || (OP == 12) || explicit_write == SCPI_REG_OPER;
        int ques_may_clear = (OP == 7) || (OP == 11) || (OP == 15) || explicit_write == SCPI_REG_QUES;
        VASSERT(esr_may_clear || (pre[SCPI_REG_ESR] & ~ctx.registers[SCPI_REG_ESR]) == 0, "C12 ESR bits stay set until *ESR?, *CLS or an explicit write");
        VASSERT(oper_may_clear || (pre[SCPI_REG_OPER] & ~ctx.registers[SCPI_REG_OPER]) == 0, "C12 OPER event bits stay set until their query, *CLS or an explicit write");
        VASSERT(ques_may_clear || (pre[SCPI_REG_QUES] & ~ctx.registers[SCPI_REG_QUES]) == 0, "C12 QUES event bits stay set until their query, *CLS, STAT:PRES or an explicit write");
#if OP == 7
        VASSERT(ctx.registers[SCPI_REG_ESR] == 0 && ctx.registers[SCPI_REG_OPER] == 0 && ctx.registers[SCPI_REG_QUES] == 0 && count1 == 0, "C12 *CLS clears every event register and the queue");
#endif
#if OP == 8
        VASSERT(ctx.registers[SCPI_REG_ESR] == 0, "C12 *ESR? clears ESR");
#endif
#if OP == 11
        VASSERT(ctx.registers[SCPI_REG_QUES] == 0, "C12 STAT:QUES:EVEN? clears the event register");
#endif
#if OP == 12
        VASSERT(ctx.registers[SCPI_REG_OPER] == 0, "C12 STAT:OPER:EVEN? clears the event register");
#endif
    }
    /* ---- C12 (c): service request */
    VASSERT(!hx_ctrl_bad, "C12 SRQ callback only ever invoked with the current status byte, MSS set");
    VASSERT(!(mss0 == 0 && mss1 == 1) || hx_ctrl_calls >= 1, "C12 SRQ callback invoked when MSS rises 0->1");
#if OP == 1 || OP == 2 || OP == 4 || OP == 9 || OP == 10 || OP == 13 || OP == 14 || OP == 16
    if (mss0 == 0 && mss1 == 1) VWITNESS("mss-rises");
#endif
#endif
    VWITNESS("end");
}
