/* vin.h - symbolic-input record shared by every harness.
 *
 * A harness defines VIN_FIELDS(F,A) (F(type,name) scalar, A(type,name,count) array) and then includes
 * this header.  Under CBMC the whole record is one nondeterministic value (every field is a solver
 * variable); under -DREPLAY (native gcc build, real libc, ASan+UBSan) the record is loaded from the replay
 * file the driver extracted from the solver's counterexample, so the very same harness + oracle re-runs
 * the counterexample against the real build.  The harness must never write to `vin` after VIN_INIT().
 */
#ifndef VERIF_VIN_H
#define VERIF_VIN_H
#include <stdint.h>
#include <stddef.h>
#include <string.h>

struct vin_s {
#define F(T, n) T n;
#define A(T, n, k) T n[k];
    VIN_FIELDS(F, A)
#undef F
#undef A
    unsigned char vin_end_marker;
};
static struct vin_s vin;

void harness(void);

#ifdef REPLAY
#include <stdio.h>
#include <stdlib.h>
static void vin_set(const char * name, long idx, unsigned long long bits) {
#define F(T, n) if (!strcmp(name, #n)) { memcpy(&vin.n, &bits, sizeof(T) > 8 ? 8 : sizeof(T)); return; }
#define A(T, n, k) if (!strcmp(name, #n)) { if (idx >= 0 && idx < (long)(k)) memcpy(&vin.n[idx], &bits, sizeof(T) > 8 ? 8 : sizeof(T)); return; }
    VIN_FIELDS(F, A)
#undef F
#undef A
}
#define VIN_INIT() ((void)0)
#define VASSERT(c, msg) do { if (!(c)) { printf("REPLAY-ASSERT-FAIL %s\n", msg); fflush(stdout); exit(1); } } while (0)
#define VASSUME(c) do { if (!(c)) { printf("REPLAY-ASSUME-FALSE %s\n", #c); fflush(stdout); exit(3); } } while (0)
#define VWITNESS(msg) do { printf("REPLAY-WITNESS %s\n", msg); } while (0)
int main(int argc, char ** argv) {
    char name[128];
    long idx;
    unsigned long long bits;
    FILE * f;
    if (argc < 2) { fprintf(stderr, "usage: %s <replay-file>\n", argv[0]); return 2; }
    f = fopen(argv[1], "r");
    if (!f) { perror(argv[1]); return 2; }
    {
        char line[512];
        while (fgets(line, sizeof line, f)) {
            if (line[0] == '#' || line[0] == '\n') continue;
            if (sscanf(line, "%127s %ld %llx", name, &idx, &bits) == 3) vin_set(name, idx, bits);
        }
    }
    fclose(f);
    harness();
    printf("REPLAY-PASS\n");
    return 0;
}
#else
struct vin_s nondet_vin(void);
#define VIN_INIT() do { vin = nondet_vin(); } while (0)
#define VASSERT(c, msg) __CPROVER_assert((c), msg)
#define VASSUME(c) __CPROVER_assume(c)
#ifdef NO_WITNESS
#define VWITNESS(msg) do { } while (0)
#else
#define VWITNESS(msg) __CPROVER_assert(0, "WITNESS " msg)
#endif
#endif

#endif
