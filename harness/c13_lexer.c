/* C13 (and the leaf layer of C01) - token recognisers of lexer.c against index-based reference recognisers
 * written from IEEE 488.2 section 7 (with the leniencies the source documents).
 * The input is an arbitrary byte string of length n <= N over ALL 256 byte values, placed so that its logical end is
 * the end of the underlying object (any read at or behind buffer+len is an out-of-bounds access for CBMC / ASan); the
 * recogniser starts at an arbitrary offset inside it, with an ARBITRARY (uninitialised-like) token out-parameter.
 *   -DTOK=n selects the recogniser, -DN=n the number of symbolic bytes.
 */
#include "scpi/scpi.h"
#include "lexer_private.h"

#ifndef N
#define N 6
#endif
#ifndef TOK
#define TOK 1
#endif

#define VIN_FIELDS(F, A) \
    A(uint8_t, buf, N) \
    F(uint8_t, len) \
    F(uint8_t, off) \
    F(int32_t, tok_type) \
    F(int32_t, tok_len) \
    F(uint8_t, tok_ptr_sel) \
    F(uint8_t, chr)
#include "vin.h"

static char b[N];
static int n;          /* logical length */
static char * start;   /* logical buffer start = b + (N - n) */

static int at(int i) {
    return (i >= 0 && i < n) ? (unsigned char) start[i] : -1;
}

#include "ref488.h"

void harness(void) {
    lex_state_t lex;
    scpi_token_t tok;
    int p, i, r, consumed;
    char * pos0;

    VIN_INIT();
    n = vin.len;
    VASSUME(n <= N);
    p = vin.off;
    VASSUME(p <= n);
    for (i = 0; i < N; i++) b[i] = (char) vin.buf[i];
    start = b + (N - n);
    lex.buffer = start;
    lex.len = n;
    lex.pos = start + p;
    pos0 = lex.pos;
    /* arbitrary garbage in the out-parameter */
    tok.type = (scpi_token_type_t) vin.tok_type;
    tok.len = vin.tok_len;
    tok.ptr = (vin.tok_ptr_sel & 1) ? NULL : b;

#if TOK == 1
    r = scpiLex_WhiteSpace(&lex, &tok);
    {
        int k = r_wsrun(p);
        VASSERT(r == k, "C13 white space: consumes exactly the longest run of blanks");
        VASSERT(tok.type == (k > 0 ? SCPI_TOKEN_WS : SCPI_TOKEN_UNKNOWN), "C13 white space: type agrees with what was consumed");
        VASSERT(tok.ptr == pos0 && tok.len == k, "C13 white space: extent agrees with what was consumed");
        if (k > 1) VWITNESS("accepted");
    }
#elif TOK == 2
    r = scpiLex_ProgramHeader(&lex, &tok);
    {
        int elen = 0;
        scpi_token_type_t etype = SCPI_TOKEN_UNKNOWN;
        int j = p, m;
        if (at(j) == '*') {
            m = r_mnemonic(j + 1);
            if (m == 0) {
                etype = SCPI_TOKEN_INCOMPLETE_COMMON_PROGRAM_HEADER;
                elen = 1;
            } else {
                j += 1 + m;
                if (at(j) == '?') {
                    etype = SCPI_TOKEN_COMMON_QUERY_PROGRAM_HEADER;
                    j++;
                } else {
                    etype = SCPI_TOKEN_COMMON_PROGRAM_HEADER;
                }
                elen = j - p;
            }
        } else {
            int colon = at(j) == ':';
            if (colon) j++;
            m = r_mnemonic(j);
            if (m == 0) {
                if (colon) {
                    etype = SCPI_TOKEN_INCOMPLETE_COMPOUND_PROGRAM_HEADER;
                    elen = 1;
                }
            } else {
                int incomplete = 0;
                j += m;
                while (at(j) == ':') {
                    m = r_mnemonic(j + 1);
                    if (m == 0) {
                        incomplete = 1;
                        j++;
                        break;
                    }
                    j += 1 + m;
                }
                if (incomplete) {
                    etype = SCPI_TOKEN_INCOMPLETE_COMPOUND_PROGRAM_HEADER;
                } else if (at(j) == '?') {
                    etype = SCPI_TOKEN_COMPOUND_QUERY_PROGRAM_HEADER;
                    j++;
                } else {
                    etype = SCPI_TOKEN_COMPOUND_PROGRAM_HEADER;
                }
                elen = j - p;
            }
        }
        VASSERT(tok.type == etype, "C13 program header: classification (common/compound, query, incomplete, none) as 488.2 7.6 prescribes");
        VASSERT(r == elen && tok.len == elen, "C13 program header: consumes exactly the longest header prefix");
        VASSERT(tok.ptr == pos0, "C13 program header: extent starts where the recogniser started");
        if (etype == SCPI_TOKEN_COMPOUND_QUERY_PROGRAM_HEADER && elen >= 4) VWITNESS("accepted");
    }
#elif TOK == 3
    r = scpiLex_CharacterProgramData(&lex, &tok);
    {
        int k = r_mnemonic(p);
        VASSERT(r == k && tok.len == k, "C13 character data: consumes exactly alpha (alnum|_)*");
        VASSERT(tok.type == (k > 0 ? SCPI_TOKEN_PROGRAM_MNEMONIC : SCPI_TOKEN_UNKNOWN), "C13 character data: type agrees with what was consumed");
        VASSERT(tok.ptr == pos0, "C13 character data: extent starts where the recogniser started");
        if (k > 2) VWITNESS("accepted");
    }
#elif TOK == 4
    r = scpiLex_DecimalNumericProgramData(&lex, &tok);
    {
        int k = r_decimal(p);
        VASSERT(r == k && tok.len == k, "C13 decimal numeric: consumes exactly the longest 488.2 decimal literal (blanks allowed before the exponent and after its E)");
        VASSERT(tok.type == (k > 0 ? SCPI_TOKEN_DECIMAL_NUMERIC_PROGRAM_DATA : SCPI_TOKEN_UNKNOWN), "C13 decimal numeric: type agrees with what was consumed");
        VASSERT(tok.ptr == pos0, "C13 decimal numeric: extent starts where the recogniser started");
        if (k >= 5) VWITNESS("accepted");
    }
#elif TOK == 5
    r = scpiLex_SuffixProgramData(&lex, &tok);
    {
        int lo = r_suffix_strict(p);
        int k = r;
        VASSERT(k >= lo, "C13 suffix: never consumes less than the longest strict 488.2 suffix");
        VASSERT(k >= 0 && p + k <= n, "C13 suffix: stays inside the input");
        for (i = 0; i < N; i++) {
            if (i < k) {
                int c = at(p + i);
                VASSERT(r_alpha(c) || r_digit(c) || c == '-' || c == '/' || c == '.', "C13 suffix: consumes only suffix characters (relaxed syntax)");
            }
        }
        VASSERT(k == 0 || at(p) == '/' || r_alpha(at(p)), "C13 suffix: a suffix starts with '/' or a letter");
        VASSERT(tok.type == (k > 0 ? SCPI_TOKEN_SUFFIX_PROGRAM_DATA : SCPI_TOKEN_UNKNOWN) && tok.len == k, "C13 suffix: type and length agree with what was consumed");
        VASSERT(tok.ptr == pos0, "C13 suffix: extent starts where the recogniser started");
        if (lo >= 3) VWITNESS("accepted");
    }
#elif TOK == 6
    r = scpiLex_NondecimalNumericData(&lex, &tok);
    {
        int c1 = at(p + 1), k = 0;
        scpi_token_type_t etype = SCPI_TOKEN_UNKNOWN;
        if (at(p) == '#') {
            if (c1 == 'H' || c1 == 'h') {
                while ((at(p + 2 + k) >= '0' && at(p + 2 + k) <= '9') || (at(p + 2 + k) >= 'a' && at(p + 2 + k) <= 'f') || (at(p + 2 + k) >= 'A' && at(p + 2 + k) <= 'F')) k++;
                etype = SCPI_TOKEN_HEXNUM;
            } else if (c1 == 'Q' || c1 == 'q') {
                while (at(p + 2 + k) >= '0' && at(p + 2 + k) <= '7') k++;
                etype = SCPI_TOKEN_OCTNUM;
            } else if (c1 == 'B' || c1 == 'b') {
                while (at(p + 2 + k) == '0' || at(p + 2 + k) == '1') k++;
                etype = SCPI_TOKEN_BINNUM;
            }
        }
        if (k == 0) etype = SCPI_TOKEN_UNKNOWN;
        VASSERT(r == (k > 0 ? k + 2 : 0), "C13 nondecimal: consumes #H/#Q/#B plus the longest digit run of that base, or nothing");
        VASSERT(tok.type == etype, "C13 nondecimal: base classification");
        VASSERT(tok.len == k, "C13 nondecimal: reported length is the digit count");
        VASSERT(tok.ptr == (k > 0 ? pos0 + 2 : pos0), "C13 nondecimal: reported extent is the digit run");
        if (k >= 3) VWITNESS("accepted");
    }
#elif TOK == 7
    r = scpiLex_StringProgramData(&lex, &tok);
    {
        int q = at(p), k = 0, closed = 0, j;
        scpi_token_type_t etype = SCPI_TOKEN_UNKNOWN;
        if (q == '"' || q == '\'') {
            j = p + 1;
            while (1) {
                int c = at(j);
                if (c < 0 || c > 0x7f) break;
                if (c == q) {
                    if (at(j + 1) == q) {
                        j += 2;
                        continue;
                    }
                    closed = 1;
                    break;
                }
                j++;
            }
            if (closed) {
                k = j + 1 - p;
                etype = q == '"' ? SCPI_TOKEN_DOUBLE_QUOTE_PROGRAM_DATA : SCPI_TOKEN_SINGLE_QUOTE_PROGRAM_DATA;
            }
        }
        VASSERT(r == k && tok.len == k, "C13 string: consumes exactly the quoted string with doubled quotes, or nothing");
        VASSERT(tok.type == etype, "C13 string: quote classification");
        VASSERT(tok.ptr == pos0, "C13 string: extent starts at the opening quote");
        if (k >= 5) VWITNESS("accepted");
    }
#elif TOK == 8
    r = scpiLex_ArbitraryBlockProgramData(&lex, &tok);
    {
        /* definite-length block #<d><d digits><bytes>; incomplete header/data at end of input swallows the rest */
        int verdict = -1; /* 1 valid, 0 incomplete, -1 invalid */
        int d = 0, L = 0, j = p, got = 0;
        if (at(j) == '#') {
            j++;
            if (at(j) >= '1' && at(j) <= '9') {
                d = at(j) - '0';
                j++;
                while (got < d && r_digit(at(j))) {
                    L = L * 10 + (at(j) - '0');
                    j++;
                    got++;
                }
                if (got == d) {
                    verdict = (L <= n - j) ? 1 : 0;
                } else if (at(j) < 0) {
                    verdict = 0;
                }
            } else if (at(j) < 0) {
                verdict = 0;
            }
        }
        if (verdict == 1) {
            VASSERT(tok.type == SCPI_TOKEN_ARBITRARY_BLOCK_PROGRAM_DATA, "C13 block: complete definite-length block is accepted");
            VASSERT(tok.ptr == start + j && tok.len == L, "C13 block: reported extent is exactly the announced data bytes");
            VASSERT(r == j + L - p, "C13 block: consumes header plus announced length");
            VASSERT(lex.pos == start + j + L, "C13 block: cursor behind the data");
            if (L >= 2) VWITNESS("accepted");
        } else if (verdict == 0) {
            VASSERT(tok.type == SCPI_TOKEN_UNKNOWN && tok.len == 0 && r == 0, "C13 block: incomplete block is not a token");
            VASSERT(lex.pos == start + n, "C13 block: incomplete block swallows the rest of the input");
            if (d == 1 && got == 1) VWITNESS("incomplete");
        } else {
            VASSERT(tok.type == SCPI_TOKEN_UNKNOWN && tok.len == 0 && r == 0, "C13 block: anything else is not a block");
            VASSERT(lex.pos == pos0, "C13 block: cursor unchanged on a non-block");
        }
    }
#elif TOK == 9
    r = scpiLex_ProgramExpression(&lex, &tok);
    {
        int k = 0, j;
        if (at(p) == '(') {
            j = p + 1;
            while (r_exprchar(at(j))) j++;
            if (at(j) == ')') k = j + 1 - p;
        }
        VASSERT(r == k && tok.len == k, "C13 expression: consumes exactly ( expression-characters ), or nothing");
        VASSERT(tok.type == (k > 0 ? SCPI_TOKEN_PROGRAM_EXPRESSION : SCPI_TOKEN_UNKNOWN), "C13 expression: type agrees with what was consumed");
        VASSERT(tok.ptr == pos0, "C13 expression: extent starts at the parenthesis");
        if (k >= 4) VWITNESS("accepted");
    }
#elif TOK == 10
    /* single-character tokens and the terminator */
    {
        int sel = vin.chr % 5;
        int k;
        scpi_token_type_t etype;
        if (sel == 0) {
            r = scpiLex_Comma(&lex, &tok);
            k = at(p) == ',';
            etype = SCPI_TOKEN_COMMA;
        } else if (sel == 1) {
            r = scpiLex_Semicolon(&lex, &tok);
            k = at(p) == ';';
            etype = SCPI_TOKEN_SEMICOLON;
        } else if (sel == 2) {
            r = scpiLex_Colon(&lex, &tok);
            k = at(p) == ':';
            etype = SCPI_TOKEN_COLON;
        } else if (sel == 3) {
            r = scpiLex_SpecificCharacter(&lex, &tok, (char) vin.tok_ptr_sel);
            k = at(p) >= 0 && (char) at(p) == (char) vin.tok_ptr_sel;
            etype = SCPI_TOKEN_SPECIFIC_CHARACTER;
        } else {
            /* terminator: CR LF, LF (and the lone CR the implementation tolerates, see DESIGN.md section 4) */
            r = scpiLex_NewLine(&lex, &tok);
            k = 0;
            if (at(p) == '\r') k = 1;
            if (at(p + k) == '\n') k++;
            etype = SCPI_TOKEN_NL;
        }
        VASSERT(r == k && tok.len == k, "C13 separators/terminator: consumes exactly the separator, or nothing");
        VASSERT(tok.type == (k > 0 ? etype : SCPI_TOKEN_UNKNOWN), "C13 separators/terminator: type agrees with what was consumed");
        VASSERT(tok.ptr == pos0, "C13 separators/terminator: extent starts where the recogniser started");
        if (sel == 4 && k == 2) VWITNESS("accepted");
    }
#else
#error unknown TOK
#endif
    consumed = (int) (lex.pos - pos0);
    VASSERT(lex.pos >= pos0 && lex.pos <= start + n, "C13 cursor never moves before its start or past the end of the input");
    VASSERT(lex.buffer == start && lex.len == n, "C13 lexer never changes the input window");
#if TOK != 8
    VASSERT(consumed == r, "C13 return value is the number of bytes consumed");
#endif
    VASSERT(tok.type != SCPI_TOKEN_UNKNOWN || tok.len == 0, "C13 a rejected token has length 0");
    VWITNESS("end");
}
