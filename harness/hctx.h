/* hctx.h - shared scaffolding: a scpi_t built directly (no init history needed for inductive harnesses) with
 * recording interface callbacks.  Configure with macros before including:
 *   HX_OUT_MAX   capacity of the output log (default 64); bytes beyond it set hx_out_overflow
 *   HX_WRITE_IGNORE  the write callback only counts bytes (output content irrelevant to the property)
 */
#ifndef VERIF_HCTX_H
#define VERIF_HCTX_H
#include "scpi/scpi.h"

#ifndef HX_OUT_MAX
#define HX_OUT_MAX 64
#endif
#ifndef HX_LOG_MAX
#define HX_LOG_MAX 8
#endif

static char hx_out[HX_OUT_MAX + 1];
static size_t hx_out_len;
static int hx_out_overflow;
static int hx_write_calls;
static int hx_flush_calls;
static size_t hx_flush_at; /* output length at the time of the last flush */
static int hx_err_calls;
static int hx_err_log[HX_LOG_MAX];
static int hx_ctrl_calls;
static int hx_ctrl_bad; /* a control(SRQ) call violated its contract (checked at call time) */
static scpi_reg_val_t hx_ctrl_last;
static int hx_reset_calls;

static size_t hx_write(scpi_t * context, const char * data, size_t len) {
    (void) context;
    hx_write_calls++;
#ifdef HX_WRITE_IGNORE
    (void) data;
    hx_out_len += len;
#else
    {
        size_t i;
        for (i = 0; i < len; i++) {
            if (hx_out_len < HX_OUT_MAX) {
                hx_out[hx_out_len++] = data[i];
            } else {
                hx_out_overflow = 1;
            }
        }
    }
#endif
    return len;
}

static scpi_result_t hx_flush(scpi_t * context) {
    (void) context;
    hx_flush_calls++;
    hx_flush_at = hx_out_len;
    return SCPI_RES_OK;
}

static int hx_error(scpi_t * context, int_fast16_t err) {
    (void) context;
    if (hx_err_calls < HX_LOG_MAX) hx_err_log[hx_err_calls] = (int) err;
    hx_err_calls++;
    return 0;
}

static scpi_result_t hx_control(scpi_t * context, scpi_ctrl_name_t ctrl, scpi_reg_val_t val) {
    if (ctrl == SCPI_CTRL_SRQ) {
        hx_ctrl_calls++;
        hx_ctrl_last = val;
        /* contract of C12: called with the current status byte, MSS set */
        if (!(val & STB_SRQ) || val != context->registers[SCPI_REG_STB]) hx_ctrl_bad = 1;
    }
    return SCPI_RES_OK;
}

static scpi_result_t hx_reset(scpi_t * context) {
    (void) context;
    hx_reset_calls++;
    return SCPI_RES_OK;
}

static scpi_interface_t hx_interface = {
    /* error */ hx_error,
    /* write */ hx_write,
    /* control */ hx_control,
    /* flush */ hx_flush,
    /* reset */ hx_reset,
};

#endif
