/* C05 (message level, concrete data templates) - what SCPI_Parse does around the handler:
 * message "H <DATA>" + LF with a CONCRETE data text (-DDATA, -DITEMS = number of well-formed integer items, or
 * -DMALFORMED=1), a handler that reads READS (0..3) integer parameters (mandatory flags symbolic), then either succeeds,
 * fails after pushing its own error, or fails without an error (symbolic).  Expected:
 *   malformed data          -> handler never runs, >= 1 error, all of them -1xx, result FALSE
 *   reader beyond the list  -> -109 when mandatory (and the handler gives up), nothing when optional
 *   handler ERR, no error   -> exactly -200
 *   handler OK, items left  -> exactly -108
 *   result == TRUE exactly when no error was raised.
 */
#include "hctx.h"
#include "libc.h"

#ifndef DATA
#define DATA "1,2"
#endif
#ifndef ITEMS
#define ITEMS 2
#endif
#ifndef MALFORMED
#define MALFORMED 0
#endif
#ifndef READS
#define READS 2
#endif

#define VIN_FIELDS(F, A) \
    F(uint8_t, mand) \
    F(uint8_t, mode) \
    F(uint8_t, pre_cmd_error)
#include "vin.h"

static scpi_t ctx;
static scpi_error_t queue[6];
static char msg[40];
#ifndef PREFIX
#define PREFIX ""
#define PREFIX_ERRS 0
#endif
/* PREFIX: an earlier unit of the same message that raises PREFIX_ERRS errors of its own (e.g. "NOPE;" -> -113): the unit
 * under test must be accounted for exactly as if it stood alone */
static const char text[] = PREFIX "H " DATA "\n";
static int calls, got[3], gave_up, own_error, ret_err;

static scpi_result_t handler(scpi_t * c) {
    int j;
    calls++;
    for (j = 0; j < READS; j++) {
        int32_t v = 0;
        int mandatory = (vin.mand >> j) & 1;
        got[j] = SCPI_ParamInt32(c, &v, mandatory) ? 1 : 0;
        if (!got[j] && SCPI_ParamErrorOccurred(c)) {
            gave_up = 1;
            return SCPI_RES_ERR;
        }
    }
    if ((vin.mode % 3) == 1) {
        own_error = 1;
        SCPI_ErrorPush(c, SCPI_ERROR_ILLEGAL_PARAMETER_VALUE);
        return SCPI_RES_ERR;
    }
    if ((vin.mode % 3) == 2) {
        ret_err = 1;
        return SCPI_RES_ERR;
    }
    return SCPI_RES_OK;
}

static scpi_result_t ok_handler(scpi_t * c) {
    (void) c;
    return SCPI_RES_OK;
}

static const scpi_command_t cmds[] = {{"H", handler, 0}, {"G", ok_handler, 1}, SCPI_CMD_LIST_END};

void harness(void) {
    int i, j;
    scpi_bool_t res;
    VIN_INIT();
    for (i = 0; i < (int) sizeof text; i++) msg[i] = text[i];
    ctx.cmdlist = cmds;
    ctx.interface = &hx_interface;
    ctx.error_queue.data = queue;
    ctx.error_queue.size = 6;
    ctx.cmd_error = vin.pre_cmd_error & 1; /* whatever an earlier command left */
    res = SCPI_Parse(&ctx, msg, (int) sizeof text - 1);
    VASSERT((res ? 1 : 0) == (ctx.error_queue.count == 0 ? 1 : 0), "C05 the result is FALSE exactly when the message raised an error");
    VASSERT(ctx.error_queue.count >= PREFIX_ERRS, "P: the prefix unit raised its own error(s)");
#if MALFORMED
    VASSERT(calls == 0, "C05 text that is not well-formed program data never reaches a handler");
    VASSERT(ctx.error_queue.count >= PREFIX_ERRS + 1, "C05 a unit with malformed data queues an error");
    for (i = PREFIX_ERRS; i < 6; i++) if (i < ctx.error_queue.count) VASSERT(queue[i].error_code <= -100 && queue[i].error_code >= -199, "C05 a unit with malformed data queues command errors (-1xx)");
#else
    VASSERT(calls == 1, "C05 a unit with well-formed data runs its handler once");
    {
        int expect = 0, stop = 0;
        for (j = 0; j < READS; j++) {
            if (!stop) {
                if (j < ITEMS) {
                    VASSERT(got[j] == 1, "C05 every item of the list is delivered, with any blanks around the commas");
                } else {
                    VASSERT(got[j] == 0, "C05 a reader beyond the list reports failure");
                    if ((vin.mand >> j) & 1) {
                        expect = SCPI_ERROR_MISSING_PARAMETER;
                        stop = 1;
                    }
                }
            }
        }
        if (!stop) {
            if ((vin.mode % 3) == 1) expect = SCPI_ERROR_ILLEGAL_PARAMETER_VALUE;
            else if ((vin.mode % 3) == 2) expect = SCPI_ERROR_EXECUTION_ERROR;
            else if (READS < ITEMS) expect = SCPI_ERROR_PARAMETER_NOT_ALLOWED;
        }
        if (expect == 0) {
            VASSERT(ctx.error_queue.count == PREFIX_ERRS, "C05 a correct call raises no error");
        } else {
            VASSERT(ctx.error_queue.count == PREFIX_ERRS + 1 && queue[PREFIX_ERRS].error_code == expect, "C05 exactly one error: -109 missing mandatory parameter, the handler's own error, -200 for a silent failure, -108 for parameters left unread");
        }
        if (expect == SCPI_ERROR_EXECUTION_ERROR) VWITNESS("silent-failure");
    }
#endif
    VWITNESS("end");
}
