/* C03 - a pattern accepts exactly the headers of its short/long-form language; numeric suffixes reported in
 * keyword order with the caller's default.
 * Real matchCommand (utils.c) on ONE concrete pattern (-DPATTERN, chosen by the driver: every pattern shipped in
 * tests/examples plus a generated family) against a SYMBOLIC header of up to L bytes over the program-header alphabet
 * (the pattern's own letters in both cases, a foreign letter, digits, '_', ':', '?', '*').  The pattern is parsed by the
 * driver (python) into the keyword table KW_INIT {long form, short form, optional, numeric}; the reference matcher below
 * works on mnemonics and that table only: dynamic programme over (keyword, mnemonic).
 * Both calling modes are checked: without number array (command lookup) and with one (SCPI_CommandNumbers).
 */
#include "scpi/scpi.h"
#include "utils_private.h"

#ifndef L
#define L 12
#endif
#define MAXM 6 /* mnemonics in a header */
#ifndef MAXDIG
#define MAXDIG 9
#endif
#define NUMS 4

struct kw {
    const char * lng;
    const char * sht;
    int optional;
    int numeric;
};
static const struct kw kws[] = KW_INIT;
#define NKW ((int) (sizeof kws / sizeof kws[0]))
static const char pattern[] = PATTERN;
static const char alph[] = ALPH; /* exactly 32 characters */

#define VIN_FIELDS(F, A) \
    A(uint8_t, sel, L) \
    F(uint8_t, len) \
    F(int32_t, dflt) \
    A(int32_t, init, NUMS)
#include "vin.h"

static char hdr[L + 1];
static int hl;

static int lc(int c) { return (c >= 'A' && c <= 'Z') ? c - 'A' + 'a' : c; }
static int isdig(int c) { return c >= '0' && c <= '9'; }

/* does hdr[s..s+n) spell word (case-insensitively), followed - when allowed - by digits only? returns 1/0 and the
 * position where the digits start */
static int spells(int s, int n, const char * word, int allow_digits) {
    int i = 0;
    while (word[i]) {
        if (i >= n || lc((unsigned char) hdr[s + i]) != lc((unsigned char) word[i])) return 0;
        i++;
    }
    if (i == n) return 1;
    if (!allow_digits) return 0;
    for (; i < n; i++) if (!isdig((unsigned char) hdr[s + i])) return 0;
    return 1;
}

static int wordlen(const char * w) {
    int i = 0;
    while (w[i]) i++;
    return i;
}

static int kwmatch(int k, int s, int n) {
    return spells(s, n, kws[k].lng, kws[k].numeric) || spells(s, n, kws[k].sht, kws[k].numeric);
}

void harness(void) {
    int i, j, m, body, query_p, query_h, pos, ok;
    int ms[MAXM], ml[MAXM];
    int can[8][MAXM + 1];
    int expect, nnum = 0;
    int32_t exp_nums[NUMS], nums[NUMS];
    scpi_bool_t r1, r2;

    VIN_INIT();
    hl = vin.len;
    VASSUME(hl >= 1 && hl <= L);
    for (i = 0; i < L; i++) hdr[i] = i < hl ? alph[vin.sel[i] & 31] : 0;
    hdr[L] = 0;
    for (i = 0; i < L; i++) if (i < hl) VASSUME(hdr[i] != 0);

    /* ---- reference */
    query_p = pattern[sizeof pattern - 2] == '?';
    query_h = hdr[hl - 1] == '?';
    body = query_h ? hl - 1 : hl;
    pos = 0;
    ok = (query_p == query_h);
    if (hdr[0] == ':' && !(hl >= 2 && hdr[1] == '*')) pos = 1; /* one optional leading colon, not before a common command */
    /* split into mnemonics */
    m = 0;
    {
        int s = pos;
        for (i = pos; i <= body; i++) {
            if (i == body || hdr[i] == ':') {
                if (m < MAXM) {
                    ms[m] = s;
                    ml[m] = i - s;
                    m++;
                } else {
                    ok = 0;
                }
                s = i + 1;
            }
        }
    }
    for (j = 0; j < MAXM; j++) {
        if (j < m) {
            if (ml[j] == 0) ok = 0;
            for (i = 0; i < L; i++) if (i >= ms[j] && i < ms[j] + ml[j] && (hdr[i] == '?' )) ok = 0; /* '?' only at the very end */
        }
    }
    /* can[k][j]: keywords k.. can spell mnemonics j.. */
    for (j = 0; j <= MAXM; j++) can[NKW][j] = (j == m);
    for (i = NKW - 1; i >= 0; i--) {
        for (j = 0; j <= MAXM; j++) {
            int c = 0;
            if (j <= m) {
                if (j < m && kwmatch(i, ms[j], ml[j]) && can[i + 1][j + 1]) c = 1;
                if (kws[i].optional && can[i + 1][j]) c = 1;
            }
            can[i][j] = c;
        }
    }
    expect = ok && can[0][0];
    /* numeric suffixes in keyword order (leftmost-match assignment) */
    {
        int jj = 0;
        for (i = 0; i < NKW; i++) {
            int taken = 0;
            if (expect && jj < m && kwmatch(i, ms[jj], ml[jj]) && can[i + 1][jj + 1]) taken = 1;
            if (kws[i].numeric) {
                int32_t v = vin.dflt;
                if (taken) {
                    /* digits behind the (long or short) word */
                    int wl = spells(ms[jj], ml[jj], kws[i].lng, 1) ? wordlen(kws[i].lng) : wordlen(kws[i].sht);
                    if (wl < ml[jj]) {
                        int32_t acc = 0;
                        int d;
                        for (d = 0; d < MAXDIG; d++) if (wl + d < ml[jj]) acc = acc * 10 + (hdr[ms[jj] + wl + d] - '0');
                        v = acc;
                        VASSUME(ml[jj] - wl <= MAXDIG); /* stated bound on the length of numeric suffixes */
                    }
                }
                if (nnum < NUMS) exp_nums[nnum] = v;
                nnum++;
            }
            if (taken) jj++;
        }
    }

    /* ---- implementation, both modes */
    r1 = matchCommand(pattern, hdr, (size_t) hl, NULL, 0, 0);
    for (i = 0; i < NUMS; i++) nums[i] = vin.init[i];
    r2 = matchCommand(pattern, hdr, (size_t) hl, nums, NUMS, vin.dflt);

    VASSERT((r1 ? 1 : 0) == expect, "C03 header accepted iff it spells the pattern's short/long-form language (lookup mode)");
    VASSERT((r2 ? 1 : 0) == expect, "C03 header accepted iff it spells the pattern's short/long-form language (numbers mode)");
    if (expect) {
        for (i = 0; i < NUMS; i++) {
            if (i < nnum) VASSERT(nums[i] == exp_nums[i], "C03 numeric suffixes reported in keyword order, default where left out or skipped");
        }
        VWITNESS("accepted");
    } else {
        VWITNESS("rejected");
    }
}
