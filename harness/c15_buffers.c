/* C15 - no formatting or copying API writes past the buffer the caller gave it.
 * The caller's buffer has a SYMBOLIC length 0..MAXB and is placed so that its end is the end of the underlying object:
 * any write at or behind buffer+len is an out-of-bounds access for CBMC's bounds checks (natively: ASan).  Besides
 * that the harness asserts NUL termination whenever the result is shorter than the buffer and that the returned
 * length matches what was written.
 *   -DFN=1 SCPI_NumberToStr (value + unit)   2 SCPI_NumberToStr (special number name)
 *        3 SCPI_DoubleToStr   4 SCPI_FloatToStr   5 SCPI_ParamCopyText   6 SCPI_dtostre (USE_CUSTOM_DTOSTRE build)
 * printf build: libc snprintf is not repository code; its contract model prints the text the harness selects from a
 * table of (value, "%.15lg"/"%g" text) pairs, so CBMC and the native replay see identical text.
 */
#include "scpi/scpi.h"
#include "utils_private.h"
#include "libc.h"
#include <math.h>
#include <stdio.h>
#include <stdlib.h>

#ifndef FN
#define FN 1
#endif
#ifndef MAXB
#define MAXB 40
#endif

#define VIN_FIELDS(F, A) \
    F(uint8_t, blen) \
    F(uint8_t, vsel) \
    A(char, uname, 6) \
    A(char, sname, 9) \
    F(char, fill) \
    A(char, src, 10) \
    F(uint8_t, srclen) \
    A(char, digits, 17) \
    F(int16_t, decpt) \
    F(uint8_t, prec) \
    F(uint8_t, flags) \
    F(uint8_t, neg)
#include "vin.h"

static char raw[MAXB + 1];
static int ecvt_stub_calls;

struct dv {
    double v;
    const char * d15; /* "%.15lg" */
    const char * g6;  /* "%g" of (float) v */
};
static const struct dv table[] = {
    {0.0, "0", "0"},
    {10.5, "10.5", "10.5"},
    {-1.25e-7, "-1.25e-07", "-1.25e-07"},
    {123456789012345.0, "123456789012345", "1.23457e+14"},
    {0.333333333333333314829616256247, "0.333333333333333", "0.333333"},
    {-1.7976931348623157e308, "-1.79769313486232e+308", "-inf"},
    {7.0, "7", "7"},
    {-123456.5, "-123456.5", "-123456"},
};
#define NTAB ((int) (sizeof table / sizeof table[0]))

static scpi_t ctx;
static scpi_unit_def_t units[2];
static scpi_choice_def_t specials[2];
static char uname[6], sname[9];

static int my_strlen(const char * s, int max) {
    int i = 0;
    while (i < max && s[i]) i++;
    return i;
}

void harness(void) {
    size_t len, r;
    char * buf;
    int i, sel;
    VIN_INIT();
    len = vin.blen;
    VASSUME(len <= MAXB);
    for (i = 0; i <= MAXB; i++) raw[i] = vin.fill;
    buf = raw + (MAXB - len); /* buf[len] is the last byte of the object: it is NOT part of the caller's buffer */
    sel = vin.vsel % NTAB;

#if FN == 1 || FN == 2
    {
        scpi_number_t num;
        int ul, sl;
        for (i = 0; i < 5; i++) {
            uname[i] = vin.uname[i];
            VASSUME(uname[i] == 0 || (uname[i] >= 'A' && uname[i] <= 'Z'));
        }
        uname[5] = 0;
        for (i = 0; i < 8; i++) {
            sname[i] = vin.sname[i];
            VASSUME(sname[i] == 0 || (sname[i] >= 'A' && sname[i] <= 'z'));
        }
        sname[8] = 0;
        ul = my_strlen(uname, 5);
        sl = my_strlen(sname, 8);
        VASSUME(ul >= 1 && sl >= 1);
        units[0].name = uname;
        units[0].unit = SCPI_UNIT_OHM;
        units[0].mult = 1;
        units[1].name = NULL;
        specials[0].name = sname;
        specials[0].tag = 5;
        specials[1].name = NULL;
        specials[1].tag = -1;
        ctx.units = units;
#if FN == 1
        num.special = FALSE;
        num.content.value = table[sel].v;
        num.unit = (vin.neg & 1) ? SCPI_UNIT_OHM : SCPI_UNIT_NONE;
        num.base = 10;
        vm_snprintf_text = table[sel].d15;
#else
        num.special = TRUE;
        num.content.tag = (vin.neg & 1) ? 5 : 6; /* known / unknown tag */
        num.unit = SCPI_UNIT_NONE;
        num.base = 10;
#endif
        r = SCPI_NumberToStr(&ctx, specials, &num, buf, len);
        VASSERT(r <= len, "C15 NumberToStr: returned length does not exceed the buffer");
        if (len > 0) {
            VASSERT(r < len, "C15 NumberToStr: room is left for the terminator");
            VASSERT(buf[r] == 0, "C15 NumberToStr: string is NUL-terminated at the returned length");
            for (i = 0; i < MAXB; i++) if ((size_t) i < r) VASSERT(buf[i] != 0, "C15 NumberToStr: returned length matches what was written");
        } else {
            VASSERT(r == 0, "C15 NumberToStr: nothing is produced into a zero-length buffer");
        }
#if FN == 1
        if (len > 0 && num.unit == SCPI_UNIT_OHM && r + 1 == len) VWITNESS("unit-fills-buffer");
#endif
    }
#elif FN == 3 || FN == 4
    {
#if FN == 3
        vm_snprintf_text = table[sel].d15;
        r = SCPI_DoubleToStr(table[sel].v, buf, len);
#else
        vm_snprintf_text = table[sel].g6;
        r = SCPI_FloatToStr((float) table[sel].v, buf, len);
#endif
        VASSERT(r <= len, "C15 Float/DoubleToStr: returned length does not exceed the buffer");
        if (len > 0) {
            VASSERT(r < len, "C15 Float/DoubleToStr: room is left for the terminator");
            VASSERT(buf[r] == 0, "C15 Float/DoubleToStr: NUL-terminated at the returned length");
            for (i = 0; i < MAXB; i++) if ((size_t) i < r) VASSERT(buf[i] != 0, "C15 Float/DoubleToStr: returned length matches what was written");
        } else {
            VASSERT(r == 0, "C15 Float/DoubleToStr: nothing is produced into a zero-length buffer");
        }
        if (len > 0 && r + 1 == len) VWITNESS("fills-buffer");
    }
#elif FN == 5
    {
        /* quoted text parameter: src is <q> body <q> with symbolic body; decode the reference un-quoting in the harness */
        static char pbuf[12];
        size_t copy_len = 77;
        int n = vin.srclen, closed_ok = 1, j, outn = 0;
        char q, expect[10];
        scpi_bool_t ok;
        VASSUME(n >= 2 && n <= 10);
        for (i = 0; i < 10; i++) pbuf[i] = i < n ? vin.src[i] : 0;
        pbuf[10] = 0;
        q = pbuf[0];
        VASSUME(q == '"' || q == '\'');
        VASSUME(pbuf[n - 1] == q);
        /* well-formed body: 7-bit characters, every quote doubled */
        j = 1;
        for (i = 0; i < 10; i++) {
            if (j < n - 1) {
                char c = pbuf[j];
                VASSUME(c > 0);
                if (c == q) {
                    VASSUME(j + 1 < n - 1 && pbuf[j + 1] == q);
                    j++;
                }
                expect[outn++] = c;
                j++;
            }
        }
        (void) closed_ok;
        ctx.interface = NULL;
        ctx.param_list.lex_state.buffer = pbuf;
        ctx.param_list.lex_state.pos = pbuf;
        ctx.param_list.lex_state.len = n;
        ctx.input_count = 0;
        ok = SCPI_ParamCopyText(&ctx, buf, len, &copy_len, TRUE);
        VASSERT(ok, "C15 ParamCopyText: a well-formed quoted string is accepted");
        VASSERT(copy_len <= len, "C15 ParamCopyText: copied length does not exceed the buffer");
        VASSERT(copy_len <= (size_t) outn, "C15 ParamCopyText: copied length does not exceed the text");
        for (i = 0; i < 10; i++) if ((size_t) i < copy_len) VASSERT(buf[i] == expect[i], "C15 ParamCopyText: copies the un-quoted text (doubled quotes collapsed)");
        if (copy_len < len) VASSERT(buf[copy_len] == 0, "C15 ParamCopyText: NUL-terminated whenever a byte remains");
        /* NOT asserted: "the whole text is copied whenever it fits".  The copy loop stops when the SOURCE index reaches
         * buffer_len, so a text with doubled quotes can come out cut although it would fit (src "' * 3""x", 8-byte buffer);
         * C15 does not promise completeness, see DESIGN.md section 5 (observation O1). */
        if (copy_len + 1 == len) VWITNESS("fills-buffer");
    }
#elif FN == 6
    {
        /* built-in formatter (USE_CUSTOM_DTOSTRE build).  scpi_ecvt's digit generation (floating-point division chain)
         * is replaced by a stub that returns an ARBITRARY digit string of the requested length and an arbitrary decimal
         * exponent in the double range: buffer safety may not depend on which digits come out. */
        double v;
        char * ret;
        unsigned char prec = vin.prec;
        VASSUME(prec >= 1 && prec <= 15);
        v = (vin.neg & 1) ? -1.5 : 1.5; /* finite, sign as selected; the digits come from the stub */
#ifdef REPLAY
        {
            /* natively the static scpi_ecvt cannot be replaced: feed the real one a value whose decimal expansion is the
             * stub's digit string and exponent, so the same digits come out (up to its rounding fuzz) */
            char tmp[64];
            int k, o = 0;
            tmp[o++] = (vin.neg & 1) ? '-' : '+';
            tmp[o++] = '0';
            tmp[o++] = '.';
            for (k = 0; k < 17 && k <= prec; k++) tmp[o++] = (vin.digits[k] >= '0' && vin.digits[k] <= '9') ? vin.digits[k] : '0';
            snprintf(tmp + o, sizeof tmp - o, "e%d", (int) vin.decpt);
            v = strtod(tmp, NULL);
        }
#endif
        if ((vin.neg & 6) == 2) v = INFINITY;
        if ((vin.neg & 6) == 4) v = NAN;
        ret = SCPI_dtostre(v, buf, len, prec, vin.flags);
        VASSERT(ret == buf, "C15 dtostre: returns the caller's buffer");
        if (len > 0) {
            int l = my_strlen(buf, MAXB);
            VASSERT((size_t) l < len, "C15 dtostre: NUL-terminated inside the buffer");
            if ((size_t) l + 1 == len) VWITNESS("fills-buffer");
        }
#ifndef REPLAY
        if (ecvt_stub_calls > 0 && len > 20) VWITNESS("digit-stub-used");
#endif
    }
#endif
    VASSERT(buf[len] == vin.fill, "C15 the byte right behind the caller's buffer is untouched");
    VWITNESS("end");
}

#if FN == 6 && defined(STUB_scpi_ecvt)
/* replacement for utils.c's static scpi_ecvt (body removed by goto-instrument) */
char * scpi_ecvt(double arg, int ndigits, int * decpt, int * sign, char * buf, size_t bufsize) {
    int i;
    (void) arg;
    ecvt_stub_calls++;
    if (ndigits < 0) ndigits = 0;
    if (ndigits >= (int) (bufsize - 1)) ndigits = (int) bufsize - 2;
    *sign = 0;
    VASSUME(vin.decpt >= -330 && vin.decpt <= 310);
    *decpt = vin.decpt;
    for (i = 0; i < 17; i++) {
        if (i < ndigits) {
            VASSUME(vin.digits[i] >= '0' && vin.digits[i] <= '9');
            buf[i] = vin.digits[i];
        }
    }
    buf[ndigits] = 0;
    return buf;
}
#endif
