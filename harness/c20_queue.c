/* C20 (queue level) - the allocation-free build stores error texts intact or not at all, through the error queue.
 * Built with -DUSE_MEMORY_ALLOCATION_FREE=0.  Refinement step: ANY consistent state of (queue of capacity CAP, circular
 * string heap of SIZE bytes) - the queued errors with a text own, in queue order, the live strings of the heap (0..3, any
 * rotation, wrapped or not), entries without text hold NULL - then ONE real operation:
 *   OP 1  SCPI_ErrorPushEx(code, symbolic text, symbolic length)   (incl. queue overflow: the new text and the newest
 *         entry's text are released with rollback and -350 without text is queued)
 *   OP 2  SCPI_SystemErrorNextQ  (pop, print through the real SCPI_ResultError / get_parts, release)
 *   OP 3  SCPI_ErrorClear
 * Afterwards every queued error reports exactly the text it was pushed with or no text (read back through
 * scpiheap_get_parts), the heap invariant holds again with an exact free-byte count, an emptied queue leaves the heap
 * completely reusable (count == size, cursor 0), and nothing outside the exact-size heap object was written.
 */
#define HX_WRITE_IGNORE 1
#include "hctx.h"
#include "scpi/minimal.h"
#include "utils_private.h"
#include "libc.h"

#ifndef SIZE
#define SIZE 6
#endif
#ifndef CAP
#define CAP 2
#endif
#ifndef OP
#define OP 1
#endif
#define MAXS 3

#define VIN_FIELDS(F, A) \
    F(uint8_t, rd) \
    F(uint8_t, qn) \
    F(uint8_t, qrd) \
    A(uint8_t, has_text, CAP) \
    A(int16_t, code, CAP) \
    A(uint8_t, slen, MAXS) \
    A(char, bytes, SIZE) \
    A(char, text, SIZE + 2) \
    F(uint8_t, tn) \
    F(uint8_t, p_has_text) \
    F(int16_t, pcode)
#include "vin.h"

static scpi_t ctx;
static scpi_error_t queue[CAP];
static char store[SIZE];
static char img[SIZE];
static int s_pos[MAXS + 2], s_len[MAXS + 2];
static int ns;
/* abstract queue: code and index of the owned string (-1 = no text) per entry, oldest first */
static int a_n, a_code[CAP + 1], a_str[CAP + 1];

#ifdef STUB_SCPI_ErrorTranslate
const char * SCPI_ErrorTranslate(int16_t err) {
    (void) err;
    return "E";
}
#endif

#define HEAP (ctx.error_info_heap)
#define SLOT(i) ((ctx.error_queue.rd + (i)) % CAP)

static int inv_u(void) {
    int i, u = 0;
    for (i = 0; i < ns; i++) u += s_len[i] + 1;
    return u;
}

static int inv_store(void) {
    int i, ok = 1;
    for (i = 0; i < SIZE; i++) ok &= (store[i] == img[i]);
    return ok;
}

#define INV_CHECK(what) do { \
        int u_ = inv_u(); \
        VASSERT(HEAP.size == SIZE && HEAP.data == store, what ": heap descriptor untouched"); \
        VASSERT((int) HEAP.count == SIZE - u_, what ": free-byte count is exact"); \
        VASSERT(u_ == 0 ? HEAP.wr == 0 : (int) HEAP.wr == (s_pos[0] + u_) % SIZE, what ": write cursor right behind the newest string (0 when the heap is empty: completely reusable)"); \
        VASSERT(inv_store(), what ": every byte of the heap is as expected (live strings intact, free bytes zero)"); \
    } while (0)

static int text_is(const char * p, int k) {
    /* does the queue's text pointer p denote abstract string k, readable intact through get_parts ? */
    const char * p2;
    size_t l1, l2;
    int i, ok = 1;
    if (p != &store[s_pos[k]]) return 0;
    if (!scpiheap_get_parts(&HEAP, p, &l1, &p2, &l2)) return 0;
    if ((int) (l1 + l2) != s_len[k]) return 0;
    for (i = 0; i < SIZE; i++) {
        if (i < s_len[k]) {
            char c = i < (int) l1 ? p[i] : p2[i - (int) l1];
            if (c != img[(s_pos[k] + i) % SIZE]) ok = 0;
        }
    }
    return ok;
}

static void check_queue(const char * unused) {
    int i;
    (void) unused;
    VASSERT(ctx.error_queue.count == a_n, "C20 queue holds the expected number of errors");
    for (i = 0; i < CAP; i++) {
        if (i < a_n) {
            VASSERT(queue[SLOT(i)].error_code == a_code[i], "C20 queued codes in order");
            if (a_str[i] < 0) VASSERT(queue[SLOT(i)].device_dependent_info == NULL, "C20 an error without (stored) text reports no text");
            else VASSERT(text_is(queue[SLOT(i)].device_dependent_info, a_str[i]), "C20 a queued error reports exactly the text it was pushed with (intact, through get_parts)");
        }
    }
}

void harness(void) {
    int i, k, pos, used = 0, nt = 0;
    VIN_INIT();
    /* ---- consistent pre-state */
    a_n = vin.qn;
    VASSUME(a_n <= CAP && vin.qrd < CAP);
    for (i = 0; i < CAP; i++) {
        if (i < a_n) {
            a_code[i] = vin.code[i];
            if (vin.has_text[i] & 1) a_str[i] = nt++;
            else a_str[i] = -1;
        }
    }
    VASSUME(nt <= MAXS);
    ns = nt;
    for (k = 0; k < MAXS; k++) {
        s_len[k] = vin.slen[k];
        if (k < ns) {
            VASSUME(s_len[k] >= 1 && s_len[k] < SIZE);
            used += s_len[k] + 1;
        }
    }
    VASSUME(used <= SIZE && vin.rd < SIZE);
    pos = used == 0 ? 0 : vin.rd;
    for (i = 0; i < SIZE; i++) img[i] = 0;
    for (k = 0; k < MAXS; k++) {
        if (k < ns) {
            s_pos[k] = pos;
            for (i = 0; i < SIZE; i++) {
                if (i < s_len[k]) {
                    char c = vin.bytes[(pos + i) % SIZE];
                    VASSUME(c != 0);
                    img[(pos + i) % SIZE] = c;
                }
            }
            pos = (pos + s_len[k] + 1) % SIZE;
        }
    }
    for (i = 0; i < SIZE; i++) store[i] = img[i];
    ctx.interface = &hx_interface;
    HEAP.data = store;
    HEAP.size = SIZE;
    HEAP.count = SIZE - used;
    HEAP.wr = used == 0 ? 0 : (size_t) pos;
    ctx.error_queue.data = queue;
    ctx.error_queue.size = CAP;
    ctx.error_queue.count = a_n;
    ctx.error_queue.rd = vin.qrd;
    ctx.error_queue.wr = (int16_t) ((vin.qrd + a_n) % CAP);
    if (a_n > 0) ctx.registers[SCPI_REG_STB] = STB_QMA;
    for (i = 0; i < CAP; i++) {
        queue[i].error_code = 0;
        queue[i].device_dependent_info = NULL;
    }
    for (i = 0; i < CAP; i++) {
        if (i < a_n) {
            queue[SLOT(i)].error_code = (int16_t) a_code[i];
            queue[SLOT(i)].device_dependent_info = a_str[i] >= 0 ? &store[s_pos[a_str[i]]] : NULL;
        }
    }
    INV_CHECK("P: harness pre-state");

#if OP == 1
    {
        char * t = vin.text;
        size_t n = vin.tn;
        int tl = 0, el, has = vin.p_has_text & 1;
        VASSUME(n <= SIZE + 1);
        VASSUME(t[SIZE + 1] == 0);
        while (tl < SIZE + 1 && t[tl]) tl++;
        el = (n != 0 && (int) n < tl) ? (int) n : tl; /* explicit length cuts, 0 = whole text */
        SCPI_ErrorPushEx(&ctx, vin.pcode, has ? t : NULL, n);
        if (a_n < CAP) {
            int stored = has && el >= 1 && el + 1 <= SIZE - used;
            a_code[a_n] = vin.pcode;
            if (stored) {
                s_pos[ns] = used == 0 ? 0 : pos;
                s_len[ns] = el;
                for (i = 0; i < SIZE; i++) if (i < el) img[(s_pos[ns] + i) % SIZE] = t[i];
                a_str[a_n] = ns;
                ns++;
                VWITNESS("pushed-with-text");
            } else {
                a_str[a_n] = -1;
                if (has && el >= 1) VWITNESS("text-did-not-fit");
            }
            a_n++;
        } else {
            /* overflow: the newest entry is replaced by -350 without text; its text (and the new one) are released */
            if (a_str[CAP - 1] >= 0) {
                int kk = a_str[CAP - 1];
                for (i = 0; i < SIZE; i++) if (i <= s_len[kk]) img[(s_pos[kk] + i) % SIZE] = 0;
                ns--; /* it is the newest string */
            }
            a_code[CAP - 1] = SCPI_ERROR_QUEUE_OVERFLOW;
            a_str[CAP - 1] = -1;
            VWITNESS("overflow");
        }
        check_queue("push");
        INV_CHECK("C20 push");
    }
#elif OP == 2
    {
        SCPI_SystemErrorNextQ(&ctx);
        if (a_n > 0) {
            if (a_str[0] >= 0) {
                /* oldest string released */
                for (i = 0; i < SIZE; i++) if (i <= s_len[0]) img[(s_pos[0] + i) % SIZE] = 0;
                for (k = 0; k < MAXS; k++) { s_pos[k] = s_pos[k + 1]; s_len[k] = s_len[k + 1]; }
                ns--;
                for (i = 0; i < CAP; i++) if (a_str[i] >= 0) a_str[i]--;
                VWITNESS("popped-with-text");
            }
            for (i = 0; i < CAP; i++) { a_code[i] = a_code[i + 1]; a_str[i] = a_str[i + 1]; }
            a_n--;
        }
        check_queue("pop");
        INV_CHECK("C20 SYST:ERR?");
    }
#else
    SCPI_ErrorClear(&ctx);
    a_n = 0;
    ns = 0;
    for (i = 0; i < SIZE; i++) img[i] = 0;
    check_queue("clear");
    INV_CHECK("C20 clear");
#endif
    VWITNESS("end");
}
