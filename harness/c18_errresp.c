/* C18 - the error query always yields one well-formed, bounded error response.
 * Real SCPI_ResultError (parser.c) with the description supplied through a stubbed SCPI_ErrorTranslate (symbolic text of
 * length 0..DMAX over {x, '"'}; the real table lookup is checked separately, -DPART=2) and a symbolic device-dependent
 * text (absent, or length 0..TMAX over {y, ';', '"'}).  The captured output must be  <code>,"<body>"  where every quote
 * inside body is doubled (one valid 488.2 string), un-escaping body gives a prefix of description[;text], body is at most
 * LIMIT characters and is cut as late as LIMIT allows.
 * LIMIT is SCPI_STD_ERROR_DESC_MAX_STRING_LENGTH as compiled: the real 255, or a scaled value when the driver overrides
 * constants.h (stated per case).   Configurations: malloc (text = one C string) and static heap (text possibly wrapped
 * around the end of the heap: two parts).
 */
#include "scpi/scpi.h"
#include "scpi/minimal.h"
#include "utils_private.h"

#ifndef PART
#define PART 1
#endif
#ifndef DMAX
#define DMAX 10
#endif
#ifndef TMAX
#define TMAX 10
#endif
#ifndef QMAX
#define QMAX 3
#endif
#ifndef CODE
#define CODE (-113)
#endif
#define LIMIT SCPI_STD_ERROR_DESC_MAX_STRING_LENGTH

#define VIN_FIELDS(F, A) \
    F(uint16_t, dlen) \
    F(uint16_t, tlen) \
    F(uint8_t, has_text) \
    A(uint8_t, dsel, DMAX) \
    A(uint8_t, tsel, TMAX) \
    F(uint16_t, hoff) \
    F(int16_t, code)
#include "vin.h"

static scpi_t ctx;
static char desc[DMAX + 1];
static char text[TMAX + 1];
static char src[DMAX + TMAX + 2]; /* description[;text] */
static int sl;                    /* its length */

/* The output is checked while it is written (a small state machine in the write callback) instead of being stored and
 * parsed afterwards: storing it at symbolic offsets made the formula explode (676 s / 4 GB at a limit of 12). */
static const char codetxt[] = CODE_TEXT;
static int st_phase; /* 0 code, 1 comma, 2 opening quote, 3 body */
static int st_ci, st_u, st_body, st_pend, st_bad_format, st_bad_prefix, st_written, st_flushes;

static size_t w_check(scpi_t * context, const char * data, size_t len) {
    size_t i;
    (void) context;
    for (i = 0; i < len; i++) {
        char c = data[i];
        st_written++;
        if (st_phase == 0) {
            if (c != codetxt[st_ci]) st_bad_format = 1;
            st_ci++;
            if (st_ci == (int) sizeof codetxt - 1) st_phase = 1;
        } else if (st_phase == 1) {
            if (c != ',') st_bad_format = 1;
            st_phase = 2;
        } else if (st_phase == 2) {
            if (c != '"') st_bad_format = 1;
            st_phase = 3;
        } else {
            if (st_pend) {
                /* previous byte was a quote: inside the string it must be doubled */
                if (c != '"') st_bad_format = 1;
                if (!(st_u < sl && src[st_u] == '"')) st_bad_prefix = 1;
                st_u++;
                st_body += 2;
                st_pend = 0;
            } else if (c == '"') {
                st_pend = 1; /* first half of a doubled quote - or the closing quote if nothing follows */
            } else {
                if (!(st_u < sl && src[st_u] == c)) st_bad_prefix = 1;
                st_u++;
                st_body++;
            }
        }
    }
    return len;
}

static scpi_result_t w_flush(scpi_t * context) {
    (void) context;
    st_flushes++;
    return SCPI_RES_OK;
}

static scpi_interface_t w_interface = {NULL, w_check, NULL, w_flush, NULL};

#ifdef STUB_SCPI_ErrorTranslate
const char * SCPI_ErrorTranslate(int16_t err) {
    (void) err;
    return desc;
}
#endif

#if USE_DEVICE_DEPENDENT_ERROR_INFORMATION && !USE_MEMORY_ALLOCATION_FREE
static char heapstore[TMAX + 2];
#endif

void harness(void) {
    scpi_error_t e;
    int i, dl, tl, has, complete;
    size_t r;
    VIN_INIT();
    ctx.interface = &w_interface;

#if PART == 2
    /* the real code -> description table: a code with an entry gives its text, any other the fallback */
    {
        const char * d = SCPI_ErrorTranslate(vin.code);
        VASSERT(d != NULL && d[0] != 0, "C18 every code translates to a non-empty description");
        if (vin.code == SCPI_ERROR_UNDEFINED_HEADER) VASSERT(d[0] == 'U' && d[1] == 'n' && d[2] == 'd', "C18 -113 has its table description");
        if (vin.code == 0) VASSERT(d[0] == 'N' && d[1] == 'o', "C18 0 is 'No error'");
        if (vin.code > 0 || vin.code < -999) VASSERT(d[0] == 'U' && d[1] == 'n' && d[2] == 'k', "C18 codes without a table entry use the fallback description");
        VWITNESS("end");
        return;
    }
#else
    dl = vin.dlen;
    tl = vin.tlen;
    has = vin.has_text & 1;
    VASSUME(dl <= DMAX && tl <= TMAX);
    for (i = 0; i < DMAX; i++) desc[i] = i < dl ? ((vin.dsel[i] & 1) ? '"' : 'x') : 0;
    desc[DMAX] = 0;
    for (i = 0; i < TMAX; i++) text[i] = i < tl ? ((vin.tsel[i] & 3) == 1 ? '"' : ((vin.tsel[i] & 3) == 2 ? ';' : 'y')) : 0;
    text[TMAX] = 0;
#if !USE_DEVICE_DEPENDENT_ERROR_INFORMATION
    has = 0;
#endif
    /* stated bound: at most QMAX quotes in the description and in the text (the statement quantifies over 0..3) */
    {
        int qd = 0, qt = 0;
        for (i = 0; i < DMAX; i++) if (i < dl && desc[i] == '"') qd++;
        for (i = 0; i < TMAX; i++) if (i < tl && text[i] == '"') qt++;
        VASSUME(qd <= QMAX && qt <= QMAX);
    }
    /* reference source string */
    sl = 0;
    for (i = 0; i < DMAX; i++) if (i < dl) src[sl++] = desc[i];
    if (has) {
        src[sl++] = ';';
        for (i = 0; i < TMAX; i++) if (i < tl) src[sl++] = text[i];
    }

    e.error_code = CODE;
#if USE_DEVICE_DEPENDENT_ERROR_INFORMATION
#if USE_MEMORY_ALLOCATION_FREE
    e.device_dependent_info = has ? text : NULL;
#else
    /* static heap: the text lives in the circular heap starting at an arbitrary offset (wrapping around its end) */
    {
        int hs = TMAX + 2, off = vin.hoff;
        VASSUME(off < hs);
        VASSUME(!has || tl >= 1); /* the heap never stores an empty text */
        for (i = 0; i < hs; i++) heapstore[i] = 0;
        for (i = 0; i < TMAX; i++) if (i < tl) heapstore[(off + i) % hs] = text[i];
        ctx.error_info_heap.data = heapstore;
        ctx.error_info_heap.size = hs;
        ctx.error_info_heap.wr = (size_t) ((off + tl + 1) % hs);
        ctx.error_info_heap.count = (size_t) (hs - tl - 1);
        e.device_dependent_info = has ? &heapstore[off] : NULL;
    }
#endif
#endif
    r = SCPI_ResultError(&ctx, &e);

    VASSERT(r == (size_t) st_written, "C18 return value is the number of bytes written");
    VASSERT(st_phase == 3 && !st_bad_format, "C18 response is <code>,\" followed by a string in which every quote is doubled");
    VASSERT(st_pend == 1, "C18 response ends with the closing quote (single valid 488.2 string)");
    VASSERT(!st_bad_prefix, "C18 un-escaped content is a prefix of description[;text]");
    VASSERT(st_body <= LIMIT, "C18 quoted content never exceeds the limit");
    complete = (st_u == sl);
    /* cut as late as the limit allows: everything was emitted, or the limit is reached, or exactly one free character
     * remains and the next source character is a quote (needs two) */
    VASSERT(complete || st_body == LIMIT || (st_body == LIMIT - 1 && src[st_u] == '"'), "C18 content is cut as late as the limit allows");
    if (!complete && st_body == LIMIT - 1) VWITNESS("cut-before-quote");
    if (!complete && st_body == LIMIT) VWITNESS("cut-at-limit");
    if (complete && has && tl > 0) VWITNESS("complete-with-text");
    VWITNESS("end");
#endif
}
