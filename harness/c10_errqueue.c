/* C10 - the error queue is a bounded FIFO that marks overflow and owns its texts.
 *
 * Refinement step (covers histories of every length): the pre-state is ANY representation state satisfying the
 * representation invariant REP of a queue of capacity CAP -
 *     0 <= count <= CAP, 0 <= rd < CAP, wr == (rd + count) % CAP,
 *     every live slot holds an arbitrary code and either no text or its own heap string (exact-size object),
 *     every dead slot holds a stale pointer to memory the queue does not own (NULL or someone else's live string) -
 * then ONE real operation (-DOP) with symbolic arguments runs, and the abstract sequence read off the post-state must
 * equal the reference FIFO operation applied to the abstract sequence read off the pre-state (same codes, the very
 * same text pointers), REP must hold again, and ownership is decided by the memory checks: afterwards the harness
 * frees exactly what the abstract post-state and the operation's result say is still live - so a text the library
 * freed but kept referenced is a double free, a text it dropped without freeing is a leak (CBMC --memory-leak-check /
 * natively ASan+LSan).  OP 0 is the base case: the state SCPI_Init produces satisfies REP with an empty sequence.
 * A bounded-sequence formulation from SCPI_Init was tried first: with malloc'ed texts it needed 84 s at length 3 and
 * gave no verdict at length 4-5 (14 GB), the one-step form takes seconds and is not length-bounded.
 *   -DCAP=n (1..4)  -DOP=0..5  -DTXT=n maximal text length (default 3)
 */
#define HX_WRITE_IGNORE 1
#include "hctx.h"
#include "scpi/minimal.h"
#include "libc.h"
#include <stdlib.h>

#ifndef CAP
#define CAP 2
#endif
#ifndef OP
#define OP 1
#endif
#ifndef TXT
#define TXT 3
#endif

#define VIN_FIELDS(F, A) \
    F(uint8_t, count) \
    F(uint8_t, rd) \
    A(int16_t, code, 4) \
    A(uint8_t, has_text, 4) \
    A(uint8_t, tlen, 4) \
    A(char, text, 4 * (TXT + 1)) \
    A(uint8_t, stale_kind, 4) \
    F(int16_t, pcode) \
    F(uint8_t, p_has_text) \
    F(uint8_t, p_info_len) \
    A(char, ptext, TXT + 1) \
    F(uint32_t, fail_mask)
#include "vin.h"

static scpi_t ctx;
static scpi_error_t queue[CAP];
static char inbuf[4];
static const scpi_command_t nocmds[] = {SCPI_CMD_LIST_END};

#ifdef STUB_SCPI_ErrorTranslate
/* C10 does not depend on the description text (C18's subject); the ~100-way pointer choice of the real translation
 * table made symbolic execution of the response path explode, so it is replaced by one short description */
const char * SCPI_ErrorTranslate(int16_t err) {
    (void) err;
    return "E";
}
#endif

#if USE_DEVICE_DEPENDENT_ERROR_INFORMATION
#define INFO(e) ((e).device_dependent_info)
#define SETINFO(e, p) ((e).device_dependent_info = (p))
#else
#define INFO(e) ((char *) 0)
#define SETINFO(e, p) ((void) (p))
#endif

/* abstract pre-state */
static int a_count;
static int16_t a_code[CAP];
static char * a_info[CAP];
static char * foreign[CAP]; /* stale pointers to memory owned by someone else */

static char * mkstring(const char * src, int n) {
    char * p = malloc((size_t) n + 1);
    int i;
    VASSUME(p != NULL);
    for (i = 0; i < TXT; i++) if (i < n) p[i] = src[i];
    p[n] = 0;
    return p;
}

static int rep_ok(void) {
    scpi_fifo_t * f = &ctx.error_queue;
    return f->size == CAP && f->data == queue && f->count >= 0 && f->count <= CAP && f->rd >= 0 && f->rd < CAP
            && f->wr == (f->rd + f->count) % CAP;
}

#define SLOT(i) ((ctx.error_queue.rd + (i)) % CAP)

void harness(void) {
    int i, j;
    VIN_INIT();
    vm_alloc_fail_mask = vin.fail_mask;

#if OP == 0
    SCPI_Init(&ctx, nocmds, &hx_interface, scpi_units_def, "a", "b", "c", "d", inbuf, sizeof inbuf, queue, CAP);
    VASSERT(rep_ok(), "C10 SCPI_Init establishes the representation invariant");
    VASSERT(SCPI_ErrorCount(&ctx) == 0, "C10 a fresh queue is empty");
    {
        scpi_error_t e;
        SCPI_ErrorPop(&ctx, &e);
        VASSERT(e.error_code == 0 && INFO(e) == NULL, "C10 popping an empty queue yields 0 'No error' without text");
        VASSERT(rep_ok(), "C10 representation invariant after popping an empty queue");
    }
    VWITNESS("end");
    return;
#else
    /* ---- arbitrary representation state satisfying REP */
    ctx.cmdlist = nocmds;
    ctx.interface = &hx_interface;
    ctx.buffer.data = inbuf;
    ctx.buffer.length = sizeof inbuf;
    VASSUME(vin.count <= CAP && vin.rd < CAP);
    ctx.error_queue.data = queue;
    ctx.error_queue.size = CAP;
    ctx.error_queue.count = vin.count;
    ctx.error_queue.rd = vin.rd;
    ctx.error_queue.wr = (int16_t) ((vin.rd + vin.count) % CAP);
    if (vin.count > 0) ctx.registers[SCPI_REG_STB] = STB_QMA;
    a_count = vin.count;
    for (i = 0; i < CAP; i++) {
        int live = ((i - vin.rd + CAP) % CAP) < vin.count; /* slot i is live iff its distance from rd is < count */
        int n = vin.tlen[i];
        char * p = NULL;
        VASSUME(n <= TXT);
        for (j = 0; j < TXT; j++) VASSUME(vin.text[i * (TXT + 1) + j] > 0); /* non-NUL 7-bit characters */
        foreign[i] = NULL;
        if (live) {
            if ((vin.has_text[i] & 1) && USE_DEVICE_DEPENDENT_ERROR_INFORMATION) p = mkstring(&vin.text[i * (TXT + 1)], n);
        } else if (vin.stale_kind[i] & 1) {
            p = mkstring(&vin.text[i * (TXT + 1)], n);
            foreign[i] = p;
        }
        queue[i].error_code = vin.code[i];
        SETINFO(queue[i], p);
    }
    for (i = 0; i < CAP; i++) {
        a_code[i] = queue[SLOT(i)].error_code;
        a_info[i] = INFO(queue[SLOT(i)]);
    }
    VASSERT(rep_ok(), "P: harness pre-state satisfies REP");

#if OP == 1
    /* ---- push(code, text?) */
    {
        char t[TXT + 1];
        int has = vin.p_has_text & 1;
        size_t il = vin.p_info_len;
        int tl = 0, stored;
        VASSUME(il <= TXT + 1);
        for (i = 0; i < TXT; i++) {
            VASSUME(vin.ptext[i] >= 0);
            t[i] = vin.ptext[i];
        }
        t[TXT] = 0;
        while (tl < TXT && t[tl]) tl++;
        if (il != 0 && (int) il < tl) tl = (int) il; /* an explicit length cuts the text */
        SCPI_ErrorPushEx(&ctx, vin.pcode, has ? t : NULL, il);
        stored = has && USE_DEVICE_DEPENDENT_ERROR_INFORMATION && !(vin.fail_mask & 1u);
        VASSERT(rep_ok(), "C10 representation invariant preserved by push");
        VASSERT(ctx.cmd_error, "C10 push flags the running command as failed");
        if (a_count < CAP) {
            VASSERT(ctx.error_queue.count == a_count + 1, "C10 push onto a non-full queue appends one entry");
            for (i = 0; i < CAP; i++) {
                if (i < a_count) {
                    VASSERT(queue[SLOT(i)].error_code == a_code[i] && INFO(queue[SLOT(i)]) == a_info[i], "C10 push leaves the earlier entries (codes and text pointers) in place and in order");
                }
            }
            VASSERT(queue[SLOT(a_count)].error_code == vin.pcode, "C10 pushed code is the newest entry");
            if (stored) {
                char * p = INFO(queue[SLOT(a_count)]);
                VASSERT(p != NULL, "C10 pushed text is stored with its error");
                if (p != NULL) {
                    for (i = 0; i < TXT; i++) if (i < tl) VASSERT(p[i] == t[i], "C10 stored text equals the pushed text");
                    VASSERT(p[tl] == 0, "C10 stored text ends where the pushed text ends");
                    for (i = 0; i < CAP; i++) if (i < a_count) VASSERT(p != a_info[i] || a_info[i] == NULL, "C10 stored text is a fresh copy");
                    VASSERT(p != t, "C10 the queue stores a copy, not the caller's buffer");
                }
#if USE_DEVICE_DEPENDENT_ERROR_INFORMATION
                VWITNESS("push-stored-text");
#endif
            } else {
                VASSERT(INFO(queue[SLOT(a_count)]) == NULL, "C10 error is queued without text when none was given or storing it failed");
#if USE_DEVICE_DEPENDENT_ERROR_INFORMATION
                if (has && (vin.fail_mask & 1u)) VWITNESS("push-alloc-failed");
#endif
            }
        } else {
            VASSERT(ctx.error_queue.count == CAP, "C10 push onto a full queue keeps it full");
            for (i = 0; i < CAP; i++) {
                if (i < CAP - 1) {
                    VASSERT(queue[SLOT(i)].error_code == a_code[i] && INFO(queue[SLOT(i)]) == a_info[i], "C10 overflow leaves all but the newest entry in place");
                }
            }
            VASSERT(queue[SLOT(CAP - 1)].error_code == SCPI_ERROR_QUEUE_OVERFLOW && INFO(queue[SLOT(CAP - 1)]) == NULL, "C10 push onto a full queue replaces the newest entry by -350 without text");
            /* the library had to release the replaced text and the new one (leak check) */
            VWITNESS("push-overflow");
        }
        /* release what the abstract post-state still owns */
        for (i = 0; i < CAP; i++) if (i < ctx.error_queue.count) free(INFO(queue[SLOT(i)]));
    }
#elif OP == 2 || OP == 5
    /* ---- pop through the API (2) or through SYST:ERR? (5) */
    {
        int n0 = a_count;
#if OP == 2
        scpi_error_t e;
        scpi_bool_t r = SCPI_ErrorPop(&ctx, &e);
        VASSERT(r, "C10 pop reports success");
        VASSERT(e.error_code == (n0 > 0 ? a_code[0] : 0), "C10 pop returns the oldest code (0 when empty)");
        VASSERT(INFO(e) == (n0 > 0 ? a_info[0] : NULL), "C10 pop hands over the oldest entry's own text (none when empty)");
#else
        scpi_result_t r = SCPI_SystemErrorNextQ(&ctx);
        VASSERT(r == SCPI_RES_OK, "C10 SYST:ERR? succeeds");
#endif
        VASSERT(rep_ok(), "C10 representation invariant preserved by pop");
        VASSERT(ctx.error_queue.count == (n0 > 0 ? n0 - 1 : 0), "C10 pop removes exactly one entry (none when empty)");
        for (i = 0; i < CAP; i++) {
            if (i + 1 < n0) {
                VASSERT(queue[SLOT(i)].error_code == a_code[i + 1] && INFO(queue[SLOT(i)]) == a_info[i + 1], "C10 pop leaves the remaining entries in order");
            }
        }
#if OP == 2
        free(INFO(e)); /* ownership was transferred to the caller */
#endif
        /* OP 5: the library itself had to release the text after printing it (leak check) */
        for (i = 0; i < CAP; i++) if (i < ctx.error_queue.count) free(INFO(queue[SLOT(i)]));
#if USE_DEVICE_DEPENDENT_ERROR_INFORMATION
        if (n0 > 0 && a_info[0] != NULL) VWITNESS("pop-with-text");
#endif
        if (n0 == 0) VWITNESS("pop-empty");
    }
#elif OP == 3
    /* ---- clear */
    SCPI_ErrorClear(&ctx);
    VASSERT(rep_ok(), "C10 representation invariant preserved by clear");
    VASSERT(ctx.error_queue.count == 0, "C10 clear empties the queue");
    /* every text had to be released by the library (leak check); nothing is freed here */
    if (a_count == CAP) VWITNESS("clear-full");
#elif OP == 4
    /* ---- count */
    VASSERT(SCPI_ErrorCount(&ctx) == a_count, "C10 count is the number of queued errors");
    VASSERT(rep_ok(), "C10 representation invariant preserved by count");
    for (i = 0; i < CAP; i++) {
        if (i < a_count) {
            VASSERT(queue[SLOT(i)].error_code == a_code[i] && INFO(queue[SLOT(i)]) == a_info[i], "C10 count changes nothing");
            free(INFO(queue[SLOT(i)]));
        }
    }
#endif
    /* memory owned by someone else must still be valid: release it now (double free if the library freed it) */
    for (i = 0; i < CAP; i++) free(foreign[i]);
    VWITNESS("end");
#endif
#ifdef REPLAY
    /* drop every remembered pointer so that LeakSanitizer sees a text the library lost as unreachable */
    memset(a_info, 0, sizeof a_info);
    memset(foreign, 0, sizeof foreign);
    memset(queue, 0, sizeof queue);
#endif
}
