/* C13 (upper layer; also the parser layer of C01) - program data items and program message units:
 *   MODE 1: scpiParser_parseProgramData  against the reference <PROGRAM DATA> recogniser (type, extent, bytes consumed)
 *   MODE 2: scpiParser_detectProgramMessageUnit against the reference unit grammar: a unit is accepted as well formed
 *           exactly when it is a header, then optionally white space and comma separated program data, ended by ';',
 *           a line terminator or the end of the input; header/data extents, parameter count, termination kind and the
 *           number of bytes consumed are compared exactly; progress (len>0 => consumed>0) is asserted.
 * Input: arbitrary string of length n<=N; bytes are either all 256 values (-DALPHABET=0) or drawn from a 32-symbol
 * alphabet holding one representative of every character class the recognisers distinguish (-DALPHABET=1).
 * The logical end of the input coincides with the end of the object (over-reads are out-of-bounds accesses).
 */
#include "scpi/scpi.h"
#include "lexer_private.h"
#include "parser_private.h"

#ifndef N
#define N 5
#endif
#ifndef MODE
#define MODE 1
#endif
#ifndef ALPHABET
#define ALPHABET 1
#endif

#define VIN_FIELDS(F, A) \
    A(uint8_t, buf, N) \
    F(uint8_t, len) \
    F(uint8_t, off) \
    F(int32_t, tok_type) \
    F(int32_t, tok_len)
#include "vin.h"

static char b[N];
static int n;
static char * start;

static int at(int i) {
    return (i >= 0 && i < n) ? (unsigned char) start[i] : -1;
}

#include "ref488.h"

static const unsigned char alphabet[32] = {
    'A', 'b', 'E', 'H', 'Q', 'z', '0', '1', '2', '9', ' ', '\t', ',', ';', ':', '*',
    '?', '#', '"', '\'', '\r', '\n', '(', ')', '.', '-', '+', '/', '_', '!', 0x00, 0x80
};

void harness(void) {
    int i, p;
    VIN_INIT();
    n = vin.len;
    VASSUME(n <= N);
    for (i = 0; i < N; i++) {
#if ALPHABET
        b[i] = (char) alphabet[vin.buf[i] & 31];
#else
        b[i] = (char) vin.buf[i];
#endif
    }
    start = b + (N - n);

#if MODE == 1
    {
        lex_state_t lex;
        scpi_token_t tok;
        scpi_token_type_t etype;
        int ts, tl, sw, tot, r;
        p = vin.off;
        VASSUME(p <= n);
        lex.buffer = start;
        lex.len = n;
        lex.pos = start + p;
        tok.type = (scpi_token_type_t) vin.tok_type;
        tok.len = vin.tok_len;
        tok.ptr = NULL;
        r = scpiParser_parseProgramData(&lex, &tok);
        tot = r_data(p, n, &etype, &ts, &tl, &sw);
        VASSERT(tok.type == etype, "C13 program data: item is classified as the first matching 488.2 data type");
        VASSERT(lex.pos >= start + p && lex.pos <= start + n, "C13 program data: cursor stays inside the input");
        if (etype != SCPI_TOKEN_UNKNOWN) {
            VASSERT(tok.ptr == start + ts && tok.len == tl, "C13 program data: reported extent is the item as written");
            VASSERT(lex.pos == start + p + tot, "C13 program data: consumes the item and the white space around it");
            VASSERT(r == tot, "C13 program data: return value is the number of bytes consumed");
            if (etype == SCPI_TOKEN_DECIMAL_NUMERIC_PROGRAM_DATA_WITH_SUFFIX) VWITNESS("number-with-suffix");
            if (etype == SCPI_TOKEN_ARBITRARY_BLOCK_PROGRAM_DATA) VWITNESS("block");
        } else {
            VASSERT(tok.len == 0, "C13 program data: no item, no length");
            VASSERT(lex.pos == (sw ? start + n : start + p + tot), "C13 program data: without an item only leading blanks are consumed (an incomplete block swallows the rest)");
        }
    }
#else
    {
        scpi_parser_state_t st;
        scpi_token_type_t htype, t;
        int hs, hlen, j, w, data_ok = 1, nparams = 0, dstart, k, q, tlen, ts, tl, sw, tot, r, consumed_e, invalid_char;
        int swallowed = 0, iter;
        message_termination_t eterm;
        int wf, accept;
        /* arbitrary previous content of the parser state */
        st.programHeader.type = (scpi_token_type_t) vin.tok_type;
        st.programHeader.len = vin.tok_len;
        st.programHeader.ptr = NULL;
        st.programData = st.programHeader;
        st.numberOfParameters = vin.off;
        st.termination = SCPI_MESSAGE_TERMINATION_NONE;

        r = scpiParser_detectProgramMessageUnit(&st, start, n);

        hs = r_wsrun(0);
        hlen = r_header(hs, &htype);
        j = hs + hlen;
        w = r_wsrun(j);
        dstart = j + w;
        k = j;
        if (w > 0) {
            k = dstart;
            for (iter = 0; iter < (N + 1) / 2; iter++) {
                tot = r_data(k, n, &t, &ts, &tl, &sw);
                k += tot;
                if (t == SCPI_TOKEN_UNKNOWN) {
                    data_ok = 0;
                    swallowed = sw;
                    break;
                }
                nparams++;
                if (at(k) == ',') k++;
                else break;
            }
        }
        q = k;
        tlen = 0;
        eterm = SCPI_MESSAGE_TERMINATION_NONE;
        if (at(q) == '\r') tlen = 1;
        if (at(q + tlen) == '\n') tlen++;
        if (tlen > 0) {
            eterm = SCPI_MESSAGE_TERMINATION_NL;
        } else if (at(q) == ';') {
            tlen = 1;
            eterm = SCPI_MESSAGE_TERMINATION_SEMICOLON;
        }
        invalid_char = (tlen == 0 && q < n);
        consumed_e = invalid_char ? q + 1 : q + tlen;

        VASSERT(r == consumed_e, "C13 unit: consumes the unit, its terminator, or one offending character");
        VASSERT(n == 0 || r > 0, "C13 unit: a non-empty input always makes progress");
        VASSERT(r >= 0 && r <= n, "C13 unit: never consumes more than the input");
        VASSERT(st.termination == eterm, "C13 unit: termination kind (NL / ';' / none)");

        /* well-formedness: header, optional blanks + data list (or nothing but blanks), terminator or end of input */
        wf = r_is_complete_header(htype) && (w == 0 || data_ok || (nparams == 0 && !swallowed && k == dstart)) && !invalid_char;
        /* the unit detector signals a malformed data list by numberOfParameters == -1 (its header classification is
         * left alone - the repository's own tests pin that); -1 with nothing but blanks behind the header is the
         * "no data" case */
        accept = r_is_complete_header(st.programHeader.type)
                && !(st.numberOfParameters < 0 && w > 0 && (swallowed || k != dstart));
        VASSERT(accept == wf, "C13 unit: accepted as well formed exactly when header [blanks data{,data}] terminator|end");
        if (invalid_char) {
            VASSERT(st.programHeader.type == SCPI_TOKEN_INVALID && st.programHeader.len == 1, "C13 unit: an offending character is reported as invalid");
        } else {
            VASSERT(st.programHeader.type == htype && st.programHeader.len == hlen, "C13 unit: header classification and length");
            if (hlen > 0) VASSERT(st.programHeader.ptr == start + hs, "C13 unit: header extent");
            if (w > 0 && data_ok) {
                VASSERT(st.programData.type == SCPI_TOKEN_ALL_PROGRAM_DATA, "C13 unit: data list recognised");
                VASSERT(st.programData.ptr == start + dstart && st.programData.len == k - dstart, "C13 unit: data extent covers the whole list as written");
                VASSERT(st.numberOfParameters == nparams, "C13 unit: number of data items");
#if N >= 5
                if (nparams >= 2) VWITNESS("two-parameters");
#else
                if (nparams >= 1) VWITNESS("one-parameter");
#endif
            } else {
                VASSERT(st.programData.type == SCPI_TOKEN_UNKNOWN && st.programData.len == 0, "C13 unit: no data list");
                if (w > 0) VASSERT(st.numberOfParameters == -1, "C13 unit: a data list that is not well formed is reported as such");
            }
        }
        if (wf && eterm == SCPI_MESSAGE_TERMINATION_SEMICOLON) VWITNESS("unit-semicolon");
    }
#endif
    VWITNESS("end");
}
