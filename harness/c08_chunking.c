/* C08 - behaviour depends on the byte stream, not on how it is cut into input calls.
 * Real SCPI_Input (buffer management, rescan, execute up to a line terminator, keep the remainder) with the real unit
 * detector and all real lexers; SCPI_Parse is replaced by a recording stub (what a message DOES is C02/C05/C06's subject;
 * chunking can only influence WHICH bytes are handed to SCPI_Parse as one message and what stays pending).
 * Two contexts get the same symbolic stream p . c1 . c2 (|p| <= P, total <= N, 16-symbol alphabet):
 *     A:  Input(p)  Input(c1 c2)                 B:  Input(p)  Input(c1)  Input(c2)
 * (lengths and split point symbolic, empty chunks excluded since a zero-length call means "flush").  Because p is itself
 * delivered through SCPI_Input, the state before the compared calls is an arbitrary REACHABLE pending state, so equality
 * for every p, c1, c2 gives every multi-way chunking by induction.  Compared: the sequence of executed messages
 * (each normalised by dropping its trailing CR/LF; messages that are empty after that are dropped - "A CR" + "LF" and
 * "A CR LF" execute the same) and the unconsumed remainder.  A final zero-length call must execute exactly what is
 * pending and leave nothing.
 */
#include "hctx.h"
#include "parser_private.h"
#include "libc.h"

#ifndef N
#define N 5
#endif
#ifndef P
#define P 0
#endif
#define BUFSZ (N + 2)
#define LOGSZ (3 * N + 8)

#define VIN_FIELDS(F, A) \
    A(uint8_t, sel, N) \
    F(uint8_t, total) \
    F(uint8_t, plen) \
    F(uint8_t, cut)
#include "vin.h"

static const char alphabet[16] = {'A', '1', ' ', ',', ';', ':', '*', '?', '#', '"', '\n', '\r', '2', 'b', '\'', '('};

struct side {
    scpi_t ctx;
    char buf[BUFSZ];
    scpi_error_t queue[4];
    char log[LOGSZ];
    int loglen;
    int calls;
};
static struct side sa, sb;

#ifdef STUB_scpiParser_detectProgramMessageUnit
/* Abstract unit detector for the buffer-management differential (-DPART=1 with this stub): a unit is everything up to and
 * including the first ';' or LF, an empty rest is "no header, no termination".  It satisfies the stability lemma by
 * construction; the real detector is shown to satisfy it in -DPART=2.  With it the differential check exercises exactly
 * SCPI_Input's own logic: append, NUL-terminate, rescan from the start, execute up to a line terminator, move the
 * remainder to the front, flush on a zero-length call. */
int scpiParser_detectProgramMessageUnit(scpi_parser_state_t * state, char * buffer, int len) {
    int i = 0;
    state->programHeader.ptr = buffer;
    state->programHeader.len = 0;
    state->programHeader.type = SCPI_TOKEN_UNKNOWN;
    state->programData = state->programHeader;
    state->numberOfParameters = 0;
    state->termination = SCPI_MESSAGE_TERMINATION_NONE;
    while (i < len && buffer[i] != ';' && buffer[i] != '\n') i++;
    if (i > 0) {
        state->programHeader.len = i;
        state->programHeader.type = SCPI_TOKEN_COMPOUND_PROGRAM_HEADER;
    }
    if (i < len) {
        state->termination = buffer[i] == ';' ? SCPI_MESSAGE_TERMINATION_SEMICOLON : SCPI_MESSAGE_TERMINATION_NL;
        i++;
    }
    return i;
}
#endif

#ifdef STUB_SCPI_Parse
/* recording stub: appends the message (trailing CR/LF dropped; nothing if empty) followed by the marker 0x01 */
scpi_bool_t SCPI_Parse(scpi_t * context, char * data, int len) {
    struct side * s = (context == &sa.ctx) ? &sa : &sb;
    int i, l = len;
    s->calls++;
    while (l > 0 && (data[l - 1] == '\n' || data[l - 1] == '\r')) l--;
    if (l > 0) {
        for (i = 0; i < BUFSZ; i++) if (i < l && s->loglen < LOGSZ) s->log[s->loglen++] = data[i];
        if (s->loglen < LOGSZ) s->log[s->loglen++] = 0x01;
    }
    return TRUE;
}
#endif

static void init(struct side * s) {
    s->ctx.interface = &hx_interface;
    s->ctx.buffer.data = s->buf;
    s->ctx.buffer.length = BUFSZ;
    s->ctx.buffer.position = 0;
    s->ctx.error_queue.data = s->queue;
    s->ctx.error_queue.size = 4;
}

#if defined(PART) && PART == 3
/* Functional specification of SCPI_Input's buffer logic (with the abstract detector above): whatever the chunking, the
 * executed messages are the segments of the stream that end at each LF, the pending remainder is what follows the last
 * LF, and a zero-length call executes the remainder.  One context, the stream cut into up to three chunks at symbolic
 * positions (this subsumes the two-context differential, which did not finish within 900 s even for 3-byte streams). */
void harness(void) {
    char stream[N];
    char expect[LOGSZ];
    int i, total, c1, c2, elen = 0, segstart = 0, rem;
    VIN_INIT();
    total = vin.total;
    c1 = vin.plen;
    c2 = vin.cut;
    VASSUME(total >= 1 && total <= N);
    VASSUME(c1 >= 1 && c1 <= c2 && c2 <= total);
    for (i = 0; i < N; i++) stream[i] = alphabet[vin.sel[i] & 15];
    /* reference: segments ending in LF (trailing CR/LF dropped, empty ones dropped), marker 0x01 after each */
    for (i = 0; i < N; i++) {
        if (i < total && stream[i] == '\n') {
            int l = i + 1 - segstart, k;
            while (l > 0 && (stream[segstart + l - 1] == '\n' || stream[segstart + l - 1] == '\r')) l--;
            if (l > 0) {
                for (k = 0; k < N; k++) if (k < l) expect[elen++] = stream[segstart + k];
                expect[elen++] = 0x01;
            }
            segstart = i + 1;
        }
    }
    rem = total - segstart;
    init(&sa);
    SCPI_Input(&sa.ctx, stream, c1);
    if (c2 > c1) SCPI_Input(&sa.ctx, stream + c1, c2 - c1);
    if (total > c2) SCPI_Input(&sa.ctx, stream + c2, total - c2);
    VASSERT(sa.loglen == elen, "C08 the executed messages are the LF-terminated segments of the stream, whatever the chunking (count/length)");
    for (i = 0; i < LOGSZ; i++) if (i < elen && i < sa.loglen) VASSERT(sa.log[i] == expect[i], "C08 the executed messages are the LF-terminated segments of the stream, whatever the chunking (content)");
    VASSERT((int) sa.ctx.buffer.position == rem, "C08 exactly the bytes after the last terminator stay pending");
    for (i = 0; i < N; i++) if (i < rem) VASSERT(sa.buf[i] == stream[segstart + i], "C08 the pending remainder is the unconsumed tail of the stream");
    VASSERT(sa.buf[sa.ctx.buffer.position] == 0, "C08 the buffer is NUL-terminated behind the pending bytes");
    VASSERT(sa.ctx.error_queue.count == 0, "C08 a stream that fits the buffer raises no input error");
    {
        int c0 = sa.calls;
        SCPI_Input(&sa.ctx, NULL, 0);
        VASSERT(sa.calls == c0 + 1 && sa.ctx.buffer.position == 0, "C08 a zero-length call executes what is buffered as one message and leaves nothing pending");
    }
    if (elen > 0 && rem > 0 && c1 < c2 && c2 < total) VWITNESS("three-chunks-executed-and-pending");
    VWITNESS("end");
}
#elif defined(PART) && PART == 2
/* Stability lemma behind chunking invariance (the unit detector with all real lexers, two calls on the same bytes):
 * a unit decision that did not depend on where the available input ended is the same when more input is available.
 * SCPI_Input rescans its buffer unit by unit with exactly this function, acts only on such decisions (a unit that runs
 * into the end of the data is left pending), so by induction over units and chunks every chunking executes the same
 * messages.  Decision = (bytes consumed, termination kind, header classification).  "Did not depend on the end" = the
 * unit ended in ';' or a line terminator, or an offending character was consumed before the end of the data.  The only
 * tolerated difference is the CR | LF split: "A CR" is a terminated unit and so is "A CR LF". */
void harness(void) {
    static char b1[N], b2[N];
    scpi_parser_state_t s1, s2;
    int i, n1, n2, r1, r2;
    VIN_INIT();
    n2 = vin.total;
    n1 = vin.cut;
    VASSUME(n2 >= 1 && n2 <= N && n1 >= 1 && n1 < n2);
    for (i = 0; i < N; i++) {
        b1[i] = alphabet[vin.sel[i] & 15];
        b2[i] = b1[i];
    }
#ifdef KF_F11
    for (i = 0; i < N; i++) VASSUME(b1[i] != '"' && b1[i] != '\'');
#endif
    /* the shorter input ends where its object ends (over-reads are out of bounds): place it at the end of b1 */
    {
        char * p1 = b1 + (N - n1);
        for (i = 0; i < N; i++) if (i < n1) p1[i] = b2[i];
        r1 = scpiParser_detectProgramMessageUnit(&s1, p1, n1);
    }
    r2 = scpiParser_detectProgramMessageUnit(&s2, b2, n2);
    /* A decision is acted on only as part of a chain of units that reaches a line terminator inside the available data
     * (SCPI_Input executes nothing before it has seen one and rescans from the start of its buffer when more data arrive).
     * So: a unit ended by a line terminator is claimed always; a unit ended by ';' or cut short at an offending character
     * is claimed when a line terminator follows it in the available data.  Without that side condition the lemma would
     * also speak about tokens that merely touch the end of the data ("* #b" is an offending '#', "* #b1" a number) -
     * decisions nobody acts on. */
    int nl_after = 0;
    for (i = 0; i < N; i++) if (i >= r1 && i < n1 && (b2[i] == '\n' || b2[i] == '\r')) nl_after = 1;
    if (s1.termination == SCPI_MESSAGE_TERMINATION_NL || ((s1.termination == SCPI_MESSAGE_TERMINATION_SEMICOLON || r1 < n1) && nl_after)) {
        int crlf_split = s1.termination == SCPI_MESSAGE_TERMINATION_NL && r1 == n1 && b2[n1 - 1] == '\r' && b2[n1] == '\n';
        if (crlf_split) {
            VASSERT(r2 == r1 + 1 && s2.termination == SCPI_MESSAGE_TERMINATION_NL, "C08 a CR LF pair cut between CR and LF still terminates the same unit");
        } else {
            VASSERT(r2 == r1, "C08 a unit decision made before the end of the available data does not change when more data is available (bytes consumed)");
            VASSERT(s2.termination == s1.termination, "C08 a unit decision made before the end of the available data does not change when more data is available (termination)");
        }
        VASSERT(s2.programHeader.type == s1.programHeader.type && s2.programHeader.len == s1.programHeader.len, "C08 ... nor does the header classification");
        VASSERT(s2.numberOfParameters == s1.numberOfParameters, "C08 ... nor does the parameter count");
#if N >= 5
        if (s1.numberOfParameters >= 1) VWITNESS("terminated-unit-with-data");
#else
        if (s1.termination != SCPI_MESSAGE_TERMINATION_NONE) VWITNESS("terminated-unit");
#endif
    } else {
        VWITNESS("ran-into-end-of-data");
    }
    /* second lemma, the one the CR | LF allowance rests on: the LF left behind when a line was executed at its CR is an
     * empty message of exactly one byte whatever follows it - it runs nothing, raises nothing and leaves nothing pending */
    if (b2[0] == '\n') {
        VASSERT(r2 == 1 && s2.termination == SCPI_MESSAGE_TERMINATION_NL, "C08 an LF at the start of the pending data (left over from a CR | LF split) is an empty message of exactly one byte");
        VASSERT(s2.programHeader.len == 0 && s2.programHeader.type != SCPI_TOKEN_INVALID && s2.numberOfParameters == 0, "C08 the left-over LF executes nothing and raises nothing");
        VWITNESS("leading-lf");
    }
    VWITNESS("end");
}
#else
void harness(void) {
    char stream[N];
    int i, total, pl, cut;
    VIN_INIT();
    total = vin.total;
    pl = vin.plen;
    cut = vin.cut;
    VASSUME(total >= 2 && total <= N);
    VASSUME(pl <= P && pl <= total - 2);
    VASSUME(cut > pl && cut < total); /* both chunks non-empty */
    for (i = 0; i < N; i++) stream[i] = alphabet[vin.sel[i] & 15];
#ifdef KF_F11
    /* known finding F11: a quoted string may legally contain a line terminator; whether it is executed as part of the
     * string or as the end of a message then depends on where the chunk boundary falls.  Streams with quotes are excluded. */
    for (i = 0; i < N; i++) VASSUME(stream[i] != '"' && stream[i] != '\'');
#endif
    init(&sa);
    init(&sb);
    if (pl > 0) {
        SCPI_Input(&sa.ctx, stream, pl);
        SCPI_Input(&sb.ctx, stream, pl);
    }
    SCPI_Input(&sa.ctx, stream + pl, total - pl);
    SCPI_Input(&sb.ctx, stream + pl, cut - pl);
    SCPI_Input(&sb.ctx, stream + cut, total - cut);

    VASSERT(sa.loglen < LOGSZ && sb.loglen < LOGSZ, "P: message log large enough");
    VASSERT(sa.loglen == sb.loglen, "C08 the same messages are executed whatever the chunking (count/length)");
    for (i = 0; i < LOGSZ; i++) if (i < sa.loglen && i < sb.loglen) VASSERT(sa.log[i] == sb.log[i], "C08 the same messages are executed whatever the chunking (content)");
    VASSERT(sa.ctx.buffer.position == sb.ctx.buffer.position, "C08 the same number of bytes stays pending");
    for (i = 0; i < BUFSZ; i++) if ((size_t) i < sa.ctx.buffer.position) VASSERT(sa.buf[i] == sb.buf[i], "C08 the same unconsumed remainder stays pending");
    VASSERT(sa.ctx.error_queue.count == 0 && sb.ctx.error_queue.count == 0, "C08 a stream that fits the buffer raises no input error");
    if (sa.loglen > 0 && sa.ctx.buffer.position > 0) VWITNESS("executed-and-pending");
    {
        /* zero-length call = flush */
        int pend = (int) sa.ctx.buffer.position, l0 = sa.loglen, c0 = sa.calls;
        SCPI_Input(&sa.ctx, NULL, 0);
        VASSERT(sa.calls == c0 + 1, "C08 a zero-length call executes what is buffered as one complete message");
        VASSERT(sa.ctx.buffer.position == 0, "C08 nothing stays pending after a zero-length call");
        (void) pend; (void) l0;
    }
    VWITNESS("end");
}
#endif
