/* C07 - every value the library formats as a result decodes back to the same value.
 * The real SCPI_Result* function writes into a recording callback; the captured bytes (NUL-terminated, as the input
 * buffer always is) become the parameter list of the real matching SCPI_Param* reader; the decoded value must equal the
 * original.
 *   -DTYPE=1 int32 (decimal)        2 uint32 in base BASE      3 int64 (decimal)      4 uint64 in base BASE
 *          5 bool                   6 text (7-bit, both quotes) 7 arbitrary block      8 ASCII int32 array (3 elements)
 *          9 int16 / uint16 through the 8/16-bit result macros (decimal, REAL digit generation)
 *   -DSTUBDIG=1: the digit generator U*ToStrBaseSign is replaced by its C14 contract - an ARBITRARY character string that
 *     satisfies C14's post-condition (canonical form, digits decoding to the magnitude, NUL at the returned length).  The
 *     round trip then covers every value of the width in every base; what it assumes about the digits is exactly what C14
 *     proves (all values for bases 2/8/16, a magnitude slice for base 10 - stated in both evidence files).
 *     Without STUBDIG the real digit generation is used (value slice MAG_HI).
 */
#define HX_OUT_MAX 96
#include "hctx.h"
#include "utils_private.h"
#include "libc.h"

#ifndef TYPE
#define TYPE 1
#endif
#ifndef BASE
#define BASE 10
#endif
#ifndef TXT
#define TXT 6
#endif
#ifndef BLK
#define BLK 12
#endif

#define VIN_FIELDS(F, A) \
    F(uint64_t, val) \
    A(uint64_t, arr, 3) \
    A(char, digits, 4 * 68) \
    A(uint8_t, dlen, 4) \
    A(char, text, TXT + 1) \
    A(uint8_t, blk, BLK) \
    F(uint8_t, blen) \
    F(uint8_t, sel)
#include "vin.h"

static scpi_t ctx;
static scpi_error_t queue[4];

#ifdef STUB_UInt32ToStrBaseSign
static int stub_calls;
/* C14's post-condition as a generator: any canonical digit string of the magnitude */
static size_t contract_digits(uint64_t val, int width, char * str, size_t len, int8_t base, scpi_bool_t sign) {
    int ebase = (base == 2 || base == 8 || base == 16) ? base : 10;
    int neg = sign && ebase == 10 && (width == 32 ? ((int32_t) (uint32_t) val < 0) : ((int64_t) val < 0));
    uint64_t mask = width == 32 ? 0xFFFFFFFFull : ~0ull;
    uint64_t mag = (neg ? (0ull - val) : val) & mask, acc = 0;
    int k = stub_calls < 4 ? stub_calls : 3;
    int r = vin.dlen[k], p = 0, i;
    const char * dg = &vin.digits[k * 68];
    const uint64_t lim = mask / (uint64_t) ebase, rem = mask % (uint64_t) ebase;
    stub_calls++;
    VASSUME(r >= 1 && r <= 66 && (size_t) r < len);
    if (neg) { str[0] = '-'; p = 1; }
    VASSUME(r > p);
    for (i = 0; i < 66; i++) {
        if (i >= p && i < r) {
            char c = dg[i];
#ifdef REPLAY
            int d = (c >= '0' && c <= '9') ? c - '0' : ((c >= 'A' && c <= 'F') ? c - 'A' + 10 : -1);
            if (d >= ebase) d = -1;
#else
            int d = vm_digit((unsigned char) c, ebase); /* the very expression the strto* models use */
#endif
            VASSUME(d >= 0 && !(c >= 'a' && c <= 'z')); /* upper-case digits of the base */
            VASSUME(acc < lim || (acc == lim && (uint64_t) d <= rem)); /* digits do not overflow the width */
            acc = acc * (uint64_t) ebase + (uint64_t) d;
            str[i] = c;
        }
    }
    VASSUME(acc == mag);
    VASSUME(r - p == 1 || str[p] != '0');
    str[r] = 0;
    return (size_t) r;
}

size_t UInt32ToStrBaseSign(uint32_t val, char * str, size_t len, int8_t base, scpi_bool_t sign) {
    return contract_digits(val, 32, str, len, base, sign);
}

size_t UInt64ToStrBaseSign(uint64_t val, char * str, size_t len, int8_t base, scpi_bool_t sign) {
    return contract_digits(val, 64, str, len, base, sign);
}
#endif

static void feed_back(void) {
    /* the response data becomes the parameter list of the next command */
    VASSERT(!hx_out_overflow, "P: output log large enough");
    hx_out[hx_out_len] = 0;
    ctx.param_list.lex_state.buffer = hx_out;
    ctx.param_list.lex_state.pos = hx_out;
    ctx.param_list.lex_state.len = (int) hx_out_len;
    ctx.input_count = 0;
    ctx.cmd_error = FALSE;
}

void harness(void) {
    int i;
    VIN_INIT();
    ctx.interface = &hx_interface;
    ctx.error_queue.data = queue;
    ctx.error_queue.size = 4;

#if TYPE == 1
    {
        int32_t v = (int32_t) (uint32_t) vin.val, back = 0;
#ifdef MAG_HI
        VASSUME(v >= -(int32_t) MAG_HI && v <= (int32_t) MAG_HI);
#endif
        SCPI_ResultInt32(&ctx, v);
        feed_back();
        VASSERT(SCPI_ParamInt32(&ctx, &back, TRUE), "C07 int32: emitted text is accepted by SCPI_ParamInt32");
        VASSERT(back == v, "C07 int32: decodes to the original value");
        if (v < 0) VWITNESS("negative");
    }
#elif TYPE == 2
    {
        uint32_t v = (uint32_t) vin.val, back = 0;
#ifdef MAG_HI
        VASSUME(v <= MAG_HI);
#endif
        SCPI_ResultUInt32Base(&ctx, v, BASE);
        feed_back();
        VASSERT(SCPI_ParamUInt32(&ctx, &back, TRUE), "C07 uint32: emitted text is accepted by SCPI_ParamUInt32");
        VASSERT(back == v, "C07 uint32: decodes to the original value");
    }
#elif TYPE == 3
    {
        int64_t v = (int64_t) vin.val, back = 0;
#ifdef MAG_HI
        VASSUME(v >= -(int64_t) MAG_HI && v <= (int64_t) MAG_HI);
#endif
        SCPI_ResultInt64(&ctx, v);
        feed_back();
        VASSERT(SCPI_ParamInt64(&ctx, &back, TRUE), "C07 int64: emitted text is accepted by SCPI_ParamInt64");
        VASSERT(back == v, "C07 int64: decodes to the original value");
        if (v < 0) VWITNESS("negative");
    }
#elif TYPE == 4
    {
        uint64_t v = vin.val, back = 0;
#ifdef MAG_HI
        VASSUME(v <= MAG_HI);
#endif
        SCPI_ResultUInt64Base(&ctx, v, BASE);
        feed_back();
        VASSERT(SCPI_ParamUInt64(&ctx, &back, TRUE), "C07 uint64: emitted text is accepted by SCPI_ParamUInt64");
        VASSERT(back == v, "C07 uint64: decodes to the original value");
    }
#elif TYPE == 5
    {
        scpi_bool_t v = (vin.sel & 1) ? TRUE : FALSE, back = (vin.sel & 2) ? TRUE : FALSE;
        SCPI_ResultBool(&ctx, v);
        feed_back();
        VASSERT(SCPI_ParamBool(&ctx, &back, TRUE), "C07 bool: emitted text is accepted by SCPI_ParamBool");
        VASSERT((back ? 1 : 0) == (v ? 1 : 0), "C07 bool: decodes to the original value");
    }
#elif TYPE == 6
    {
        char t[TXT + 1], back[2 * TXT + 4];
        size_t copy_len = 99;
        int tl = 0;
        for (i = 0; i < TXT; i++) {
            t[i] = vin.text[i];
            VASSUME(t[i] >= 0); /* 7-bit content, both quote characters included */
        }
        t[TXT] = 0;
        while (tl < TXT && t[tl]) tl++;
        SCPI_ResultText(&ctx, t);
        feed_back();
        VASSERT(SCPI_ParamCopyText(&ctx, back, sizeof back, &copy_len, TRUE), "C07 text: emitted text is accepted by SCPI_ParamCopyText");
        VASSERT((int) copy_len == tl, "C07 text: decoded length equals the original length");
        for (i = 0; i < TXT; i++) if (i < tl) VASSERT(back[i] == t[i], "C07 text: decodes to the original characters");
        VASSERT(back[tl] == 0, "C07 text: decoded text is terminated");
        for (i = 0; i < TXT; i++) if (i < tl && t[i] == '"') { VWITNESS("contains-double-quote"); }
    }
#elif TYPE == 7
    {
        const char * bp = NULL;
        size_t bl = 99, n = vin.blen;
        VASSUME(n <= BLK);
        SCPI_ResultArbitraryBlock(&ctx, vin.blk, n);
        feed_back();
        VASSERT(SCPI_ParamArbitraryBlock(&ctx, &bp, &bl, TRUE), "C07 block: emitted block is accepted by SCPI_ParamArbitraryBlock");
        VASSERT(bl == n, "C07 block: decoded length equals the original length");
        for (i = 0; i < BLK; i++) if ((size_t) i < n) VASSERT((uint8_t) bp[i] == vin.blk[i], "C07 block: decodes to the original bytes");
        if (n == BLK) VWITNESS("full-block");
    }
#elif TYPE == 8
    {
        int32_t a[3], back[3] = {0, 0, 0};
        size_t got = 99;
        for (i = 0; i < 3; i++) {
            a[i] = (int32_t) (uint32_t) vin.arr[i];
#ifdef MAG_HI
            VASSUME(a[i] >= -(int32_t) MAG_HI && a[i] <= (int32_t) MAG_HI);
#endif
        }
        SCPI_ResultArrayInt32(&ctx, a, 3, SCPI_FORMAT_ASCII);
        feed_back();
        VASSERT(SCPI_ParamArrayInt32(&ctx, back, 3, &got, SCPI_FORMAT_ASCII, TRUE), "C07 ASCII array: emitted list is accepted by SCPI_ParamArrayInt32");
        VASSERT(got == 3, "C07 ASCII array: all elements come back");
        for (i = 0; i < 3; i++) VASSERT(back[i] == a[i], "C07 ASCII array: round-trips element by element");
    }
#elif TYPE == 9
    {
        int32_t back = 0;
        uint32_t uback = 0;
        if (vin.sel & 1) {
            int16_t v = (int16_t) (uint16_t) vin.val;
            SCPI_ResultInt16(&ctx, v);
            feed_back();
            VASSERT(SCPI_ParamInt32(&ctx, &back, TRUE) && back == v, "C07 int16 (and int8): decodes to the original value");
            if (v < 0) VWITNESS("negative");
        } else {
            uint16_t v = (uint16_t) vin.val;
            SCPI_ResultUInt16(&ctx, v);
            feed_back();
            VASSERT(SCPI_ParamUInt32(&ctx, &uback, TRUE) && uback == v, "C07 uint16 (and uint8): decodes to the original value");
        }
    }
#endif
    VASSERT(ctx.error_queue.count == 0, "C07 reading a value the library emitted raises no error");
    VASSERT(ctx.param_list.lex_state.pos == hx_out + hx_out_len, "C07 the reader consumes the whole response data");
    VWITNESS("end");
}
