/* C20 - the allocation-free build stores error texts intact or not at all (unit level: the circular string heap).
 * Built with -DUSE_MEMORY_ALLOCATION_FREE=0.  Refinement step: the pre-state is ANY heap of SIZE bytes satisfying the
 * representation invariant of the circular string heap -
 *     the live strings (0..3 of them, each non-empty, NUL-terminated) occupy one circular interval that ends at the
 *     write cursor, every other byte is 0, count == number of free bytes, an empty heap has its cursor at 0 -
 * then ONE real operation runs: scpiheap_strndup (symbolic text and length limit), scpiheap_free of the oldest string
 * (FIFO release, no rollback) or of the newest (overflow path, rollback).  Afterwards every surviving string must read
 * back intact through scpiheap_get_parts, a new string reads back exactly as pushed (or was refused), the free-byte count
 * is exact, the invariant holds again, and an empty heap accepts any text that fits.  The heap's storage is an exact-size
 * object, so any write outside it is an out-of-bounds access for CBMC / ASan.
 *   -DSIZE=n (2..12)   -DOP=1 strndup | 2 free oldest | 3 free newest with rollback
 */
#include "scpi/scpi.h"
#include "utils_private.h"
#include "libc.h"

#ifndef SIZE
#define SIZE 6
#endif
#ifndef OP
#define OP 1
#endif
#define MAXS 3

#define VIN_FIELDS(F, A) \
    F(uint8_t, rd) \
    F(uint8_t, ns) \
    A(uint8_t, slen, MAXS) \
    A(char, bytes, SIZE) \
    A(char, text, SIZE + 2) \
    F(uint8_t, tn)
#include "vin.h"

static char store[SIZE];
static scpi_error_info_heap_t heap;
static int s_pos[MAXS + 1], s_len[MAXS + 1]; /* abstract state: start position and length of each live string, oldest first */
static int ns, used;

static char img[SIZE]; /* expected image of the store */

/* read string #k back through the real get_parts and compare with the expected image */
static int reads_back(int k) {
    const char * p2;
    size_t l1, l2;
    int i, ok = 1;
    if (!scpiheap_get_parts(&heap, &store[s_pos[k]], &l1, &p2, &l2)) return 0;
    if ((int) (l1 + l2) != s_len[k]) return 0;
    for (i = 0; i < SIZE; i++) {
        if (i < s_len[k]) {
            char c = i < (int) l1 ? store[s_pos[k] + i] : p2[i - (int) l1];
            if (c != img[(s_pos[k] + i) % SIZE]) ok = 0;
        }
    }
    if (l2 > 0 && p2 != store) ok = 0;
    return ok;
}

static int inv_u(void) {
    int i, u = 0;
    for (i = 0; i < ns; i++) u += s_len[i] + 1;
    return u;
}

static int inv_store(void) {
    int i, ok = 1;
    for (i = 0; i < SIZE; i++) ok &= (store[i] == img[i]);
    return ok;
}

/* the representation invariant, one labelled obligation per conjunct */
#define INV_CHECK(what) do { \
        int u_ = inv_u(); \
        VASSERT(heap.size == SIZE && heap.data == store, what ": heap descriptor untouched"); \
        VASSERT((int) heap.count == SIZE - u_, what ": free-byte count is exact"); \
        VASSERT(heap.wr < SIZE, what ": write cursor inside the heap"); \
        VASSERT(u_ == 0 ? heap.wr == 0 : (int) heap.wr == (s_pos[0] + u_) % SIZE, what ": write cursor right behind the newest string (0 when empty)"); \
        VASSERT(inv_store(), what ": every byte of the heap is as expected (live strings intact, free bytes zero)"); \
    } while (0)

void harness(void) {
    int i, k, pos;
    VIN_INIT();
    ns = vin.ns;
    VASSUME(ns <= MAXS);
    used = 0;
    for (k = 0; k < MAXS; k++) {
        s_len[k] = vin.slen[k];
        if (k < ns) {
            VASSUME(s_len[k] >= 1 && s_len[k] < SIZE);
            used += s_len[k] + 1;
        }
    }
    VASSUME(used <= SIZE);
    VASSUME(vin.rd < SIZE);
    pos = used == 0 ? 0 : vin.rd;
    for (i = 0; i < SIZE; i++) img[i] = 0;
    for (k = 0; k < MAXS; k++) {
        if (k < ns) {
            s_pos[k] = pos;
            for (i = 0; i < SIZE; i++) {
                if (i < s_len[k]) {
                    char c = vin.bytes[(pos + i) % SIZE];
                    VASSUME(c != 0);
                    img[(pos + i) % SIZE] = c;
                }
            }
            pos = (pos + s_len[k] + 1) % SIZE;
        }
    }
    for (i = 0; i < SIZE; i++) store[i] = img[i];
    heap.data = store;
    heap.size = SIZE;
    heap.count = SIZE - used;
    heap.wr = used == 0 ? 0 : (size_t) pos;
    INV_CHECK("P: harness pre-state");

#if OP == 0
    /* base case */
    {
        char raw[SIZE];
        scpi_error_info_heap_t h;
        for (i = 0; i < SIZE; i++) raw[i] = vin.bytes[i];
        scpiheap_init(&h, raw, SIZE);
        VASSERT(h.wr == 0 && h.count == SIZE && h.size == SIZE && h.data == raw, "C20 init: empty heap");
        for (i = 0; i < SIZE; i++) VASSERT(raw[i] == 0, "C20 init: storage cleared");
    }
#elif OP == 1
    {
        char * t = vin.text;
        size_t n = vin.tn;
        int tl = 0, el;
        char * r;
        VASSUME(n >= 1 && n <= SIZE + 1); /* the only caller (SCPI_ErrorPushEx) never passes 0 for a non-empty text */
        VASSUME(t[SIZE + 1] == 0);
        while (tl < SIZE + 1 && t[tl]) tl++;
        el = (int) n < tl ? (int) n : tl; /* effective text length */
        r = scpiheap_strndup(&heap, t, n);
        if (r == NULL) {
            INV_CHECK("C20 strndup refused, heap untouched");
            VASSERT(!(el >= 1 && el + 1 <= SIZE - used), "C20 strndup: a non-empty text that fits into the free space is stored");
            VWITNESS("refused");
        } else {
            VASSERT(el >= 1 && el + 1 <= SIZE - used, "C20 strndup: only non-empty texts that fit are stored");
            VASSERT(r == &store[used == 0 ? 0 : pos], "C20 strndup: the new string starts at the write cursor");
            s_pos[ns] = (int) (r - store);
            s_len[ns] = el;
            for (i = 0; i < SIZE; i++) if (i < el) img[(s_pos[ns] + i) % SIZE] = t[i];
            img[(s_pos[ns] + el) % SIZE] = 0;
            ns++;
            INV_CHECK("C20 strndup stored");
            for (k = 0; k <= MAXS; k++) if (k < ns) VASSERT(reads_back(k), "C20 strndup: every live string (old and new) reads back intact");
#if SIZE >= 4
            if (s_pos[ns - 1] + el >= SIZE) VWITNESS("stored-wrapping");
#endif
            VWITNESS("stored");
        }
    }
#elif OP == 2
    VASSUME(ns >= 1);
    scpiheap_free(&heap, &store[s_pos[0]], FALSE);
    for (i = 0; i < SIZE; i++) if (i <= s_len[0]) img[(s_pos[0] + i) % SIZE] = 0;
    for (k = 0; k < MAXS; k++) {
        s_pos[k] = s_pos[k + 1];
        s_len[k] = s_len[k + 1];
    }
    ns--;
    INV_CHECK("C20 free oldest");
    for (k = 0; k < MAXS; k++) if (k < ns) VASSERT(reads_back(k), "C20 free oldest: remaining strings read back intact");
    if (ns == 0) VWITNESS("emptied");
#if SIZE >= 4
    if (ns >= 1) VWITNESS("others-remain");
#endif
#elif OP == 3
    VASSUME(ns >= 1);
    scpiheap_free(&heap, &store[s_pos[ns - 1]], TRUE);
    for (i = 0; i < SIZE; i++) if (i <= s_len[ns - 1]) img[(s_pos[ns - 1] + i) % SIZE] = 0;
    ns--;
    INV_CHECK("C20 free newest with rollback");
    for (k = 0; k < MAXS; k++) if (k < ns) VASSERT(reads_back(k), "C20 free newest (rollback): remaining strings read back intact");
#if SIZE >= 4
    if (ns >= 1) VWITNESS("others-remain");
#endif
#endif
    VWITNESS("end");
}
