/* C19 - numeric and channel lists decode entry by entry exactly as written.
 * Real SCPI_ExprNumericListEntry / ...Int / SCPI_ExprChannelListEntry (expression.c) on a parenthesised expression whose
 * body is a SYMBOLIC string of length 0..N over a 16-symbol alphabet of expression characters
 * {0 1 5 9 - + . : , ! @ SP TAB E e A}, asked for a symbolic entry index 0..9 with a symbolic capacity 0..4 (value arrays
 * are exact-size objects: a store beyond the announced capacity is an out-of-bounds write).
 * Reference list parser (index based, below).  Asserted:
 *   well-formed list  => OK with exactly the entry's value/range (and dimension count) as written for i < #entries,
 *                        NO_MORE for every i >= #entries;
 *   any content       => OK only if the entry and all entries before it (and the commas between them) are well formed;
 *                        ERROR only together with a queued error;
 *   channel lists     => a malformed list reports ERROR with -170 once the malformed part is reached.
 *   -DKIND=1 numeric list (token results)  2 numeric list (int results)  3 channel list
 */
#include "hctx.h"
#include "scpi/expression.h"
#include "lexer_private.h"
#include "libc.h"

#ifndef N
#define N 6
#endif
#ifndef KIND
#define KIND 1
#endif
#define MAXCAP 4
#ifndef IMAX
#define IMAX 9
#endif
#define MAXE 6 /* entries examined by the reference */
#define SPECMAX ((N + 1) / 2 + 1) /* dimensions a channel spec can have in N bytes */

#define VIN_FIELDS(F, A) \
    A(uint8_t, sel, (N < 8 ? 8 : N)) \
    F(uint8_t, len) \
    F(uint8_t, index) \
    F(uint8_t, cap) \
    A(int32_t, init, 2 * MAXCAP)
#include "vin.h"

static char buf[N + 3]; /* '(' body ')' NUL */
static int n;
static int at(int i) {
    return (i >= 0 && i < n) ? (unsigned char) buf[1 + i] : -1;
}
#include "ref488.h"

#ifdef ALPH8
/* reduced alphabet for longer channel lists: one digit of each kind, the list punctuation, a sign and a foreign letter */
static const char alphabet[16] = {'1', '2', '!', ':', ',', '@', '-', 'A', '1', '2', '!', ':', ',', '@', '-', 'A'};
#else
static const char alphabet[16] = {'0', '1', '5', '9', '-', '+', '.', ':', ',', '!', '@', ' ', '\t', 'E', 'e', 'A'};
#endif

static scpi_t ctx;
static scpi_error_t queue[4];

#ifdef STUB_SCPI_ParamToInt32
/* The conversion of a literal to its value is C04/C07's subject (strtol at the token start).  Here it is replaced by a
 * stub that reports WHICH literal was handed over: the value stored is 1000 + the literal's start offset in the body,
 * so the assertions below check that the right literal lands in the right slot.  (With the real conversion, symbolic
 * execution of the strtol scan over deeply nested token pointers did not finish in 200 s even for 4-byte bodies.) */
scpi_bool_t SCPI_ParamToInt32(scpi_t * context, scpi_parameter_t * parameter, int32_t * value) {
    (void) context;
    *value = 1000 + (int32_t) (parameter->ptr - (buf + 1));
    return TRUE;
}
#define EXPECT_VALUE(start, len, plainp) (*(plainp) = 1, 1000 + (start))
#else
#define EXPECT_VALUE(start, len, plainp) intval((start), (len), (plainp))
#endif

/* value of a plain integer literal [sign]digits at [p, p+k); *plain = 0 if the literal has a point/exponent */
static int32_t intval(int p, int k, int * plain) {
    int i = p, neg = 0;
    int32_t v = 0;
    *plain = 1;
    if (at(i) == '-') { neg = 1; i++; } else if (at(i) == '+') i++;
    for (; i < p + k; i++) {
        if (!r_digit(at(i))) { *plain = 0; return 0; }
        v = v * 10 + (at(i) - '0');
    }
    return neg ? -v : v;
}

void harness(void) {
    int i, index, cap;
    scpi_parameter_t param;
    scpi_expr_result_t res;
    scpi_bool_t isRange = 2;
    VIN_INIT();
#ifdef SHAPE_D1
    /* shaped channel-list body: '@' <SHAPE_D1 single-digit dimensions joined by '!'> [ ':' <SHAPE_D2 dimensions> ] [ ',' digit ]
     * with symbolic digits - reaches multi-dimensional ranges that the free-text bound cannot */
    {
        int k2, q = 0;
        char body[N];
        body[q++] = '@';
        for (k2 = 0; k2 < SHAPE_D1; k2++) { if (k2) body[q++] = '!'; body[q++] = (char) ('0' + vin.sel[k2] % 10); }
        if (SHAPE_D2 > 0) {
            body[q++] = ':';
            for (k2 = 0; k2 < SHAPE_D2; k2++) { if (k2) body[q++] = '!'; body[q++] = (char) ('0' + vin.sel[3 + k2] % 10); }
        }
        if (vin.len & 1) { body[q++] = ','; body[q++] = (char) ('0' + vin.sel[6] % 10); }
        n = q;
        buf[0] = '(';
        for (i = 0; i < N; i++) buf[1 + i] = i < n ? body[i] : ')';
    }
#else
    n = vin.len;
    VASSUME(n <= N);
    buf[0] = '(';
    for (i = 0; i < N; i++) buf[1 + i] = i < n ? alphabet[vin.sel[i] & 15] : ')';
#endif
    buf[1 + n] = ')';
    buf[2 + n] = 0;
    if (n < N) buf[N + 2] = 0;
    index = vin.index;
#ifdef CAP
    cap = CAP; /* concrete per case: a symbolic capacity (symbolic pointer offsets into the value arrays) stalled symex */
#else
    cap = vin.cap;
#endif
    VASSUME(index <= IMAX && cap <= MAXCAP);
    ctx.interface = &hx_interface;
    ctx.error_queue.data = queue;
    ctx.error_queue.size = 4;
    param.type = SCPI_TOKEN_PROGRAM_EXPRESSION;
    param.ptr = buf;
    param.len = n + 2;

#if KIND == 1 || KIND == 2
    {
        /* reference walk over the numeric list */
        int pos = 0, e, ok_prefix = 1, status = -1; /* 0 OK, 1 NO_MORE, 2 ERROR */
        int fs = 0, fl = 0, ts = 0, tl = 0, range = 0;
        int wellformed_all, count = 0;
        /* whole-list well-formedness and entry count */
        {
            int q = 0, good = 1, cnt = 0;
            if (n > 0) {
                for (e = 0; e < MAXE + 2; e++) {
                    int k = r_decimal(q);
                    if (k == 0) { good = 0; break; }
                    q += k;
                    if (at(q) == ':') {
                        k = r_decimal(q + 1);
                        if (k == 0) { good = 0; break; }
                        q += 1 + k;
                    }
                    cnt++;
                    if (at(q) == ',') q++;
                    else break;
                }
                if (q != n) good = 0;
            }
            wellformed_all = good;
            count = cnt;
        }
        for (e = 0; e <= IMAX; e++) {
            if (e <= index && status < 0) {
                int k = r_decimal(pos);
                if (k == 0) {
                    status = 1;
                } else {
                    fs = pos;
                    fl = k;
                    pos += k;
                    range = 0;
                    if (at(pos) == ':') {
                        range = 1;
                        k = r_decimal(pos + 1);
                        if (k == 0) {
                            status = 2;
                        } else {
                            ts = pos + 1;
                            tl = k;
                            pos += 1 + k;
                        }
                    }
                    if (status < 0) {
                        if (e == index) status = 0;
                        else if (at(pos) == ',') pos++;
                        else status = at(pos) < 0 ? 1 : 2;
                    }
                }
            }
        }
        (void) ok_prefix;
#if KIND == 1
        {
            scpi_parameter_t from, to;
            from.ptr = NULL; from.len = -7; to.ptr = NULL; to.len = -7;
            res = SCPI_ExprNumericListEntry(&ctx, &param, index, &isRange, &from, &to);
            if (res == SCPI_EXPR_OK) {
                VASSERT(status == 0, "C19 numeric list: OK only if the entry and every entry before it are well formed");
                VASSERT(from.ptr == buf + 1 + fs && from.len == fl && from.type == SCPI_TOKEN_DECIMAL_NUMERIC_PROGRAM_DATA, "C19 numeric list: value (range start) is the literal as written");
                VASSERT((isRange ? 1 : 0) == range, "C19 numeric list: single value versus range as written");
                if (range) VASSERT(to.ptr == buf + 1 + ts && to.len == tl && to.type == SCPI_TOKEN_DECIMAL_NUMERIC_PROGRAM_DATA, "C19 numeric list: range end is the literal as written");
            }
        }
#else
        {
            int32_t vf = vin.init[0], vt = vin.init[1];
            res = SCPI_ExprNumericListEntryInt(&ctx, &param, index, &isRange, &vf, &vt);
            if (res == SCPI_EXPR_OK) {
                int plain;
                int32_t ev;
                VASSERT(status == 0, "C19 numeric list: OK only if the entry and every entry before it are well formed");
                VASSERT((isRange ? 1 : 0) == range, "C19 numeric list: single value versus range as written");
                ev = EXPECT_VALUE(fs, fl, &plain);
                if (plain) VASSERT(vf == ev, "C19 numeric list: integer value exactly as written");
                if (range) {
                    ev = EXPECT_VALUE(ts, tl, &plain);
                    if (plain) VASSERT(vt == ev, "C19 numeric list: integer range end exactly as written");
                } else {
                    VASSERT(vt == vin.init[1], "C19 numeric list: range end untouched for a single value");
                }
            }
        }
#endif
        if (wellformed_all) {
            VASSERT(res == (index < count ? SCPI_EXPR_OK : SCPI_EXPR_NO_MORE), "C19 numeric list: well-formed list gives OK for every entry and NO_MORE at or beyond the number of entries");
            if (count >= 2 && index == 1) VWITNESS("second-entry-of-wellformed-list");
        }
        if (res == SCPI_EXPR_ERROR) {
            VASSERT(ctx.error_queue.count >= 1 && queue[0].error_code == SCPI_ERROR_EXPRESSION_PARSING_ERROR, "C19 numeric list: ERROR comes with -170 queued");
            VWITNESS("error");
        } else {
            VASSERT(ctx.error_queue.count == 0, "C19 numeric list: no error queued unless ERROR is reported");
        }
        if (res == SCPI_EXPR_OK && range) VWITNESS("range");
    }
#elif KIND == 4
    {
        /* shaped channel entry (see SHAPE_D1/SHAPE_D2 above) with a shape-specific oracle: entry 0 is OK exactly when it is
         * a single channel or a range whose two ends have the same number of dimensions, with the digits as written and
         * the dimension count; otherwise ERROR with -170.  Entry 1 is the optional trailing single channel. */
        int32_t rawf[MAXCAP], rawt[MAXCAP];
        int32_t * vfrom = rawf + (MAXCAP - cap);
        int32_t * vto = rawt + (MAXCAP - cap);
        size_t dims = 99;
        int has_tail = vin.len & 1, idx = vin.index & 1, k2;
        for (i = 0; i < MAXCAP; i++) { rawf[i] = vin.init[i]; rawt[i] = vin.init[MAXCAP + i]; }
        res = SCPI_ExprChannelListEntry(&ctx, &param, idx, &isRange, cap ? vfrom : NULL, cap ? vto : NULL, (size_t) cap, &dims);
        if (SHAPE_D2 > 0 && SHAPE_D1 != SHAPE_D2) {
            VASSERT(res == SCPI_EXPR_ERROR, "C19 channel list: a range whose ends differ in dimension count is malformed: ERROR");
            VASSERT(ctx.error_queue.count >= 1 && queue[0].error_code == SCPI_ERROR_EXPRESSION_PARSING_ERROR, "C19 channel list: ERROR comes with -170 queued");
        } else if (idx == 0) {
            VASSERT(res == SCPI_EXPR_OK, "C19 channel list: a well-formed entry is reported OK");
            VASSERT((int) dims == SHAPE_D1, "C19 channel list: dimension count as written");
            VASSERT((isRange ? 1 : 0) == (SHAPE_D2 > 0 ? 1 : 0), "C19 channel list: single channel versus range as written");
            for (k2 = 0; k2 < MAXCAP; k2++) {
                if (k2 < cap && k2 < SHAPE_D1) {
                    VASSERT(vfrom[k2] == 1000 + 1 + 2 * k2, "C19 channel list: dimension values are the literals as written");
                    if (SHAPE_D2 > 0) VASSERT(vto[k2] == 1000 + 2 * SHAPE_D1 + 1 + 2 * k2, "C19 channel list: range-end dimension values are the literals as written");
                }
            }
            VASSERT(ctx.error_queue.count == 0, "C19 channel list: no error queued unless ERROR is reported");
        } else {
            VASSERT(res == (has_tail ? SCPI_EXPR_OK : SCPI_EXPR_NO_MORE), "C19 channel list: entry beyond the list is NO_MORE, the trailing channel is OK");
            if (has_tail) VASSERT(dims == 1 && !isRange, "C19 channel list: trailing single channel as written");
        }
        for (i = 0; i < MAXCAP; i++) if (i < MAXCAP - cap) VASSERT(rawf[i] == vin.init[i] && rawt[i] == vin.init[MAXCAP + i], "C19 channel list: nothing stored outside the announced capacity");
    }
#else
    {
        /* channel list: '@' spec[:spec]{,spec[:spec]}, spec = dec{!dec} */
        int32_t rawf[MAXCAP], rawt[MAXCAP];
        int32_t * vfrom = rawf + (MAXCAP - cap); /* exact-size: element [cap] is outside the object */
        int32_t * vto = rawt + (MAXCAP - cap);
        size_t dims = 99;
        int pos, e, status = -1, range = 0, d1 = 0, d2 = 0, f_s[MAXCAP], f_l[MAXCAP], t_s[MAXCAP], t_l[MAXCAP];
        int wellformed_all = 0, count = 0;
        for (i = 0; i < MAXCAP; i++) { rawf[i] = vin.init[i]; rawt[i] = vin.init[MAXCAP + i]; }
        /* one pass over the entries: status of the requested entry and well-formedness of the whole list */
        pos = 1;
        if (at(0) != '@') status = 2;
        {
            int whole = at(0) == '@' ? -1 : 0; /* -1 undecided, 0 malformed, 1 well formed */
            for (e = 0; e <= IMAX + 1; e++) {
                if (whole < 0 || (e <= index && status < 0)) {
                    int k, s, bad = 0, a = 0, c = 0, rg = 0;
                    int want = (e <= index && status < 0);
                    for (s = 0; s < SPECMAX; s++) {
                        k = r_decimal(pos);
                        if (k == 0) { bad = 1; break; }
                        if (want && a < MAXCAP) { f_s[a] = pos; f_l[a] = k; }
                        pos += k;
                        a++;
                        if (at(pos) == '!') pos++; else break;
                    }
                    if (!bad && at(pos) == ':') {
                        rg = 1;
                        pos++;
                        for (s = 0; s < SPECMAX; s++) {
                            k = r_decimal(pos);
                            if (k == 0) { bad = 1; break; }
                            if (want && c < MAXCAP) { t_s[c] = pos; t_l[c] = k; }
                            pos += k;
                            c++;
                            if (at(pos) == '!') pos++; else break;
                        }
                        if (!bad && a != c) bad = 1;
                    }
                    if (want) { d1 = a; d2 = c; range = rg; }
                    if (bad) {
                        if (want) status = 2;
                        whole = 0;
                    } else {
                        count = e + 1;
                        if (want && e == index) status = 0;
                        if (at(pos) == ',') {
                            pos++;
                        } else {
                            if (want && status < 0) status = at(pos) < 0 ? 1 : 2;
                            whole = (pos == n) ? 1 : 0;
                        }
                    }
                }
            }
            wellformed_all = whole == 1 && count >= 1;
        }
        res = SCPI_ExprChannelListEntry(&ctx, &param, index, &isRange, cap ? vfrom : NULL, cap ? vto : NULL, (size_t) cap, &dims);
        if (res == SCPI_EXPR_OK) {
            VASSERT(status == 0, "C19 channel list: OK only if the entry and every entry before it are well formed");
            VASSERT((int) dims == d1, "C19 channel list: dimension count as written");
            VASSERT((isRange ? 1 : 0) == range, "C19 channel list: single channel versus range as written");
            for (i = 0; i < MAXCAP; i++) {
                if (i < cap && i < d1) {
                    int plain;
                    int32_t ev = EXPECT_VALUE(f_s[i], f_l[i], &plain);
                    if (plain) VASSERT(vfrom[i] == ev, "C19 channel list: dimension values exactly as written");
                    if (range) {
                        ev = EXPECT_VALUE(t_s[i], t_l[i], &plain);
                        if (plain) VASSERT(vto[i] == ev, "C19 channel list: range-end dimension values exactly as written");
                    }
                }
                if (i < cap && i >= d1) VASSERT(vfrom[i] == vin.init[MAXCAP - cap + i], "C19 channel list: slots beyond the entry's dimensions untouched");
            }
#if N >= 8
            if (range && d1 >= 2) VWITNESS("two-dimensional-range");
#else
            if (range || d1 >= 2) VWITNESS("range-or-two-dimensions");
#endif
        }
        if (status == 2) VASSERT(res == SCPI_EXPR_ERROR, "C19 channel list: a malformed list reports ERROR once the malformed part is reached");
        if (wellformed_all) {
            VASSERT(res == (index < count ? SCPI_EXPR_OK : SCPI_EXPR_NO_MORE), "C19 channel list: well-formed list gives OK for every entry and NO_MORE at or beyond the number of entries");
        }
        if (res == SCPI_EXPR_ERROR) {
            VASSERT(ctx.error_queue.count >= 1 && queue[0].error_code == SCPI_ERROR_EXPRESSION_PARSING_ERROR, "C19 channel list: ERROR comes with -170 queued");
            VWITNESS("error");
        } else {
            VASSERT(ctx.error_queue.count == 0, "C19 channel list: no error queued unless ERROR is reported");
        }
        /* nothing is ever stored outside [0, cap): bytes in front of the exact-size arrays untouched */
        for (i = 0; i < MAXCAP; i++) if (i < MAXCAP - cap) VASSERT(rawf[i] == vin.init[i] && rawt[i] == vin.init[MAXCAP + i], "C19 channel list: nothing stored outside the announced capacity");
    }
#endif
    VWITNESS("end");
}
