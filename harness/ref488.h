/* ref488.h - index-based reference recognisers written from IEEE 488.2 section 7 (with the leniencies the source
 * documents).  The includer provides  static int at(int i)  returning the byte at index i of the input or -1 at/after
 * its end, and N (maximal input length). */
#ifndef VERIF_REF488_H
#define VERIF_REF488_H
static int r_alpha(int c) { return (c >= 'a' && c <= 'z') || (c >= 'A' && c <= 'Z'); }
static int r_digit(int c) { return c >= '0' && c <= '9'; }
static int r_alnum_(int c) { return r_alpha(c) || r_digit(c) || c == '_'; }
static int r_ws(int c) { return c == ' ' || c == '\t'; }

static int r_mnemonic(int i) { /* length of <program mnemonic> at i, 0 if none */
    int k = 0;
    if (!r_alpha(at(i))) return 0;
    k = 1;
    while (r_alnum_(at(i + k))) k++;
    return k;
}

static int r_digits(int i) {
    int k = 0;
    while (r_digit(at(i + k))) k++;
    return k;
}

static int r_wsrun(int i) {
    int k = 0;
    while (r_ws(at(i + k))) k++;
    return k;
}

/* 7.7.2 <DECIMAL NUMERIC PROGRAM DATA>: mantissa [ws] [E [ws] [sign] digits]; returns consumed length */
static int r_decimal(int p) {
    int i = p, d1, d2 = 0, j, e;
    if (at(i) == '+' || at(i) == '-') i++;
    d1 = r_digits(i);
    i += d1;
    if (at(i) == '.') {
        d2 = r_digits(i + 1);
        i += 1 + d2;
    }
    if (d1 + d2 == 0) return 0;
    j = i + r_wsrun(i);
    if (at(j) == 'E' || at(j) == 'e') {
        j++;
        j += r_wsrun(j);
        if (at(j) == '+' || at(j) == '-') j++;
        e = r_digits(j);
        if (e > 0) return j + e - p;
    }
    return i - p;
}

/* strict 7.7.3 <SUFFIX PROGRAM DATA>: ['/'] elem (('/'|'.') elem)*, elem = alpha+ [['-'] digit]; longest match */
static int r_suffix_elem(int i) {
    int k = 0;
    while (r_alpha(at(i + k))) k++;
    if (k == 0) return 0;
    if (at(i + k) == '-' && r_digit(at(i + k + 1))) k += 2;
    else if (r_digit(at(i + k))) k += 1;
    return k;
}

static int r_suffix_strict(int p) {
    int i = p, k;
    if (at(i) == '/') i++;
    k = r_suffix_elem(i);
    if (k == 0) return 0;
    i += k;
    while (at(i) == '/' || at(i) == '.') {
        k = r_suffix_elem(i + 1);
        if (k == 0) break;
        i += 1 + k;
    }
    return i - p;
}

static int r_exprchar(int c) {
    return c >= 0x20 && c <= 0x7e && c != '"' && c != '#' && c != '\'' && c != '(' && c != ')' && c != ';';
}


/* ---- composite reference recognisers (used by the unit-level harnesses) ---- */

/* 7.6: program header.  Returns length, *type one of the scpi header token types or SCPI_TOKEN_UNKNOWN */
static int r_header(int p, scpi_token_type_t * type) {
    int j = p, m;
    *type = SCPI_TOKEN_UNKNOWN;
    if (at(j) == '*') {
        m = r_mnemonic(j + 1);
        if (m == 0) {
            *type = SCPI_TOKEN_INCOMPLETE_COMMON_PROGRAM_HEADER;
            return 1;
        }
        j += 1 + m;
        if (at(j) == '?') {
            *type = SCPI_TOKEN_COMMON_QUERY_PROGRAM_HEADER;
            j++;
        } else {
            *type = SCPI_TOKEN_COMMON_PROGRAM_HEADER;
        }
        return j - p;
    }
    {
        int colon = at(j) == ':';
        if (colon) j++;
        m = r_mnemonic(j);
        if (m == 0) {
            if (colon) {
                *type = SCPI_TOKEN_INCOMPLETE_COMPOUND_PROGRAM_HEADER;
                return 1;
            }
            return 0;
        }
        j += m;
        while (at(j) == ':') {
            m = r_mnemonic(j + 1);
            if (m == 0) {
                *type = SCPI_TOKEN_INCOMPLETE_COMPOUND_PROGRAM_HEADER;
                return j + 1 - p;
            }
            j += 1 + m;
        }
        if (at(j) == '?') {
            *type = SCPI_TOKEN_COMPOUND_QUERY_PROGRAM_HEADER;
            j++;
        } else {
            *type = SCPI_TOKEN_COMPOUND_PROGRAM_HEADER;
        }
        return j - p;
    }
}

static int r_is_complete_header(scpi_token_type_t t) {
    return t == SCPI_TOKEN_COMPOUND_PROGRAM_HEADER || t == SCPI_TOKEN_COMPOUND_QUERY_PROGRAM_HEADER
            || t == SCPI_TOKEN_COMMON_PROGRAM_HEADER || t == SCPI_TOKEN_COMMON_QUERY_PROGRAM_HEADER;
}

static int r_hexdigit(int c) { return r_digit(c) || (c >= 'a' && c <= 'f') || (c >= 'A' && c <= 'F'); }

/* 7.7.4: returns digit count (token is 2 + count long), 0 if none */
static int r_nondecimal(int p, scpi_token_type_t * type) {
    int c1 = at(p + 1), k = 0;
    *type = SCPI_TOKEN_UNKNOWN;
    if (at(p) != '#') return 0;
    if (c1 == 'H' || c1 == 'h') {
        while (r_hexdigit(at(p + 2 + k))) k++;
        *type = SCPI_TOKEN_HEXNUM;
    } else if (c1 == 'Q' || c1 == 'q') {
        while (at(p + 2 + k) >= '0' && at(p + 2 + k) <= '7') k++;
        *type = SCPI_TOKEN_OCTNUM;
    } else if (c1 == 'B' || c1 == 'b') {
        while (at(p + 2 + k) == '0' || at(p + 2 + k) == '1') k++;
        *type = SCPI_TOKEN_BINNUM;
    }
    if (k == 0) *type = SCPI_TOKEN_UNKNOWN;
    return k;
}

/* 7.7.5: returns total length including both quotes, 0 if not a complete string */
static int r_string(int p, scpi_token_type_t * type) {
    int q = at(p), j;
    *type = SCPI_TOKEN_UNKNOWN;
    if (q != '"' && q != '\'') return 0;
    j = p + 1;
    while (1) {
        int c = at(j);
        if (c < 0 || c > 0x7f) return 0;
        if (c == q) {
            if (at(j + 1) == q) {
                j += 2;
                continue;
            }
            *type = q == '"' ? SCPI_TOKEN_DOUBLE_QUOTE_PROGRAM_DATA : SCPI_TOKEN_SINGLE_QUOTE_PROGRAM_DATA;
            return j + 1 - p;
        }
        j++;
    }
}

/* 7.7.6 definite length: verdict 1 complete (*hdr header length, *dlen data length), 0 incomplete at end of input,
 * -1 not a block */
static int r_block(int p, int nn, int * hdr, int * dlen) {
    int d, L = 0, j = p, got = 0;
    *hdr = 0;
    *dlen = 0;
    if (at(j) != '#') return -1;
    j++;
    if (at(j) < 0) return 0;
    if (!(at(j) >= '1' && at(j) <= '9')) return -1;
    d = at(j) - '0';
    j++;
    while (got < d && r_digit(at(j))) {
        L = L * 10 + (at(j) - '0');
        j++;
        got++;
    }
    if (got < d) return at(j) < 0 ? 0 : -1;
    if (L > nn - j) return 0;
    *hdr = j - p;
    *dlen = L;
    return 1;
}

/* 7.7.7 (flat): total length including parentheses, 0 if none */
static int r_expression(int p) {
    int j;
    if (at(p) != '(') return 0;
    j = p + 1;
    while (r_exprchar(at(j))) j++;
    return at(j) == ')' ? j + 1 - p : 0;
}

/* the relaxed suffix syntax the source documents and implements:
 * ['/'] [ alpha+ ['-'] [digit] ( ('/'|'.') alpha* ['-'] [digit] )* ]   (non-empty) */
static int r_suffix_relaxed(int p) {
    int i = p, a;
    if (at(i) == '/') i++;
    a = 0;
    while (r_alpha(at(i + a))) a++;
    if (a > 0) {
        i += a;
        if (at(i) == '-') i++;
        if (r_digit(at(i))) i++;
        while (at(i) == '/' || at(i) == '.') {
            i++;
            while (r_alpha(at(i))) i++;
            if (at(i) == '-') i++;
            if (r_digit(at(i))) i++;
        }
    }
    return i - p;
}

/* one <PROGRAM DATA> item with the white space around it.
 * *type, *tstart (index), *tlen describe the token as the parser reports it (block: data only; nondecimal: digits
 * only); returns the total number of bytes consumed including white space, *swallow set when an incomplete block
 * swallowed the rest of the input */
static int r_data(int p, int nn, scpi_token_type_t * type, int * tstart, int * tlen, int * swallow) {
    int i = p + r_wsrun(p), k, hdr, dlen, v;
    scpi_token_type_t t;
    *swallow = 0;
    *type = SCPI_TOKEN_UNKNOWN;
    *tstart = i;
    *tlen = 0;
    k = r_nondecimal(i, &t);
    if (k > 0) {
        *type = t;
        *tstart = i + 2;
        *tlen = k;
        i += k + 2;
        return i + r_wsrun(i) - p;
    }
    k = r_mnemonic(i);
    if (k > 0) {
        *type = SCPI_TOKEN_PROGRAM_MNEMONIC;
        *tlen = k;
        i += k;
        return i + r_wsrun(i) - p;
    }
    k = r_decimal(i);
    if (k > 0) {
        int w = r_wsrun(i + k);
        int sfx = r_suffix_relaxed(i + k + w);
        if (sfx > 0) {
            *type = SCPI_TOKEN_DECIMAL_NUMERIC_PROGRAM_DATA_WITH_SUFFIX;
            *tlen = k + w + sfx;
            i += k + w + sfx;
        } else {
            *type = SCPI_TOKEN_DECIMAL_NUMERIC_PROGRAM_DATA;
            *tlen = k;
            i += k;
        }
        return i + r_wsrun(i) - p;
    }
    k = r_string(i, &t);
    if (k > 0) {
        *type = t;
        *tlen = k;
        i += k;
        return i + r_wsrun(i) - p;
    }
    v = r_block(i, nn, &hdr, &dlen);
    if (v == 1) {
        *type = SCPI_TOKEN_ARBITRARY_BLOCK_PROGRAM_DATA;
        *tstart = i + hdr;
        *tlen = dlen;
        i += hdr + dlen;
        return i + r_wsrun(i) - p;
    }
    if (v == 0) {
        *swallow = 1;
        return nn - p;
    }
    k = r_expression(i);
    if (k > 0) {
        *type = SCPI_TOKEN_PROGRAM_EXPRESSION;
        *tlen = k;
        i += k;
        return i + r_wsrun(i) - p;
    }
    return i - p; /* only the leading white space */
}
#endif
