/* C02 - each message unit runs exactly the first command matching its effective header.
 * Real SCPI_Parse (unit loop, in-place compound-header composition, first-match lookup with the real matchCommand, -113
 * reporting) on a SYMBOLIC message of up to N bytes over {A B C : ; ? * LF} against a concrete command table with
 * overlapping patterns, an optional keyword, a query, a common command:
 *     0 "A:B"   1 "A:C"   2 "A[:B]:C"   3 "C"   4 "*C"   5 "A:B?"   6 "B"   7 "C?"
 * The message is assumed well formed: non-empty units, each a complete program header, separated by ';', optionally
 * ended by LF (the alphabet has no white space, so units carry no data).
 * Oracle (text level, independent of the library): effective header = header as written if it starts with ':' or '*' or
 * the preceding unit was a common command, else path(preceding unit's effective header) + header, path = everything up to
 * and including the last ':', empty at the start of the message; expected entry = first table entry accepting it.
 * Asserted: handlers run exactly once per defined unit, in order, with the expected tag, SCPI_IsCmd true for the entry's
 * own header, cmd_raw == effective header; an undefined unit runs nothing and queues exactly one -113 carrying the unit
 * text.
 */
#include "hctx.h"
#include "libc.h"
#include <string.h>

#ifndef N
#define N 8
#endif
#ifdef MENU
#define MAXU MENU
#elif defined(UNITS)
#define MAXU UNITS
#else
#define MAXU ((N + 1) / 2) /* units a message of N bytes can hold */
#endif
#define EH (N + 3) /* effective header capacity: a composed header is shorter than the message */

#ifdef TMPL
#define VIN_FIELDS(F, A) \
    A(uint8_t, sel, N) \
    A(uint8_t, acc, MAXU) \
    F(uint8_t, len)
#else
#define VIN_FIELDS(F, A) \
    A(uint8_t, sel, N) \
    F(uint8_t, len)
#endif
#include "vin.h"

static char buf[N + 1];
static char orig[N + 1];
static int n;
static int at(int i) {
    return (i >= 0 && i < n) ? (unsigned char) orig[i] : -1;
}
#include "ref488.h"

static const char alphabet[8] = {'A', 'B', 'C', ':', ';', '?', '*', '\n'};

static scpi_t ctx;
static scpi_error_t queue[8];

/* trace */
static int t_n;
static int t_tag[MAXU + 2];
static int t_rawlen[MAXU + 2];
static char t_raw[MAXU + 2][EH];
static int t_iscmd[MAXU + 2];

static const char * const canon[8] = {"A:B", "A:C", "A:B:C", "C", "*C", "A:B?", "B", "C?"};

static scpi_result_t handler(scpi_t * c) {
    int i, tag = SCPI_CmdTag(c);
    if (t_n < MAXU + 2) {
        t_tag[t_n] = tag;
        t_rawlen[t_n] = (int) c->param_list.cmd_raw.length;
        for (i = 0; i < EH; i++) t_raw[t_n][i] = (i < (int) c->param_list.cmd_raw.length) ? c->param_list.cmd_raw.data[i] : 0;
#ifdef TMPL
        t_iscmd[t_n] = 1; /* SCPI_IsCmd hands the matcher a caller-supplied pattern; with a symbolic acceptance relation there is nothing to compare */
#else
        t_iscmd[t_n] = (tag >= 0 && tag < 8) ? SCPI_IsCmd(c, canon[tag]) : 0;
#endif
    }
    t_n++;
    return SCPI_RES_OK;
}

static const scpi_command_t cmds[] = {
    {"A:B", handler, 0}, {"A:C", handler, 1}, {"A[:B]:C", handler, 2}, {"C", handler, 3}, {"*C", handler, 4},
    {"A:B?", handler, 5}, {"B", handler, 6}, {"C?", handler, 7},
    SCPI_CMD_LIST_END
};

/* reference acceptance for the table above: e[0..el) effective header */
static int eq(const char * e, int el, const char * w) {
    int i = 0;
    while (w[i]) {
        if (i >= el || e[i] != w[i]) return 0;
        i++;
    }
    return i == el;
}

/* does table entry idx accept the effective header e[0..el) ? */
static int ref_lookup_entry(const char * e, int el, int idx) {
    int q = el > 0 && e[el - 1] == '?';
    int bl = q ? el - 1 : el;
    const char * b = e;
    if (bl >= 2 && b[0] == ':' && b[1] != '*') { b++; bl--; } /* one optional leading colon, never before a common command */
    switch (idx) {
        case 0: return !q && eq(b, bl, "A:B");
        case 1: return !q && eq(b, bl, "A:C");
        case 2: return !q && (eq(b, bl, "A:B:C") || eq(b, bl, "A:C"));
        case 3: return !q && eq(b, bl, "C");
        case 4: return !q && eq(b, bl, "*C");
        case 5: return q && eq(b, bl, "A:B");
        case 6: return !q && eq(b, bl, "B");
        case 7: return q && eq(b, bl, "C");
        default: return 0;
    }
}

/* first accepting entry, -1 if none */
static int ref_lookup(const char * e, int el) {
    int i;
    for (i = 0; i < 8; i++) if (ref_lookup_entry(e, el, i)) return i;
    return -1;
}

#ifdef STUB_scpiParser_parseAllProgramData
/* the message alphabet has no white space, so the unit detector can never reach the parameter-list recogniser; its body is
 * replaced by this stub, which turns that claim into a proof obligation */
#include "parser_private.h"
int scpiParser_parseAllProgramData(lex_state_t * state, scpi_token_t * token, int * numberOfParameters) {
    (void) state; (void) token; (void) numberOfParameters;
    VASSERT(0, "P: parameter-list recogniser is unreachable (no white space in the message alphabet)");
    return 0;
}
#endif

#if defined(STUB_matchCommand) && defined(TMPL)
/* Template variant (-DTMPL="text"): the message text is concrete, the ACCEPTANCE RELATION of the 8-entry table is symbolic:
 * which entries accept which effective header is an arbitrary function acc[text] -> 8-bit set (vin.acc, keyed by the first
 * unit carrying that effective header, so equal texts get equal answers).  The dispatch logic is thereby checked for every
 * command table of 8 entries at once - any overlap, any order - on messages of 3 and 4 units that the free-text variant
 * cannot afford.  A text that is not the effective header of any unit is refused and flagged. */
static char tm_eff[MAXU][EH];
static int tm_efflen[MAXU];
static int tm_units;
static int tm_bad_text;
static int tm_key(const char * e, int el) {
    int u, k;
    for (u = 0; u < MAXU; u++) {
        if (u < tm_units && tm_efflen[u] == el) {
            int same = 1;
            for (k = 0; k < EH; k++) if (k < el && tm_eff[u][k] != e[k]) same = 0;
            if (same) return u;
        }
    }
    return -1;
}
scpi_bool_t matchCommand(const char * pattern, const char * cmd, size_t len, int32_t * numbers, size_t numbers_len, int32_t default_value) {
    int i, idx = -1, l = 0, key;
    char e[EH];
    (void) numbers; (void) numbers_len; (void) default_value;
    for (i = 0; i < 8; i++) if (pattern == cmds[i].pattern) idx = i;
    if (len > EH) { tm_bad_text = 1; return FALSE; }
    for (i = 0; i < EH; i++) {
        if (i < (int) len && cmd[i] != 0 && l == i) { e[i] = cmd[i]; l = i + 1; }
    }
    key = tm_key(e, l);
    if (key < 0 || idx < 0) { tm_bad_text = 1; return FALSE; }
    return (vin.acc[key] >> idx) & 1;
}
#elif defined(STUB_matchCommand)
/* Pattern acceptance is C03's subject (real matchCommand against a reference matcher, per pattern).  Here the real
 * matcher can be replaced by the reference acceptance relation of the table above - a deterministic function of
 * (pattern, header text) - so that the dispatch logic (unit loop, in-place header composition, first match, -113) is
 * what the solver's time is spent on: with the real matcher inlined 8 x units times, symbolic execution alone did not
 * finish in 280 s for 5-byte messages. */
scpi_bool_t matchCommand(const char * pattern, const char * cmd, size_t len, int32_t * numbers, size_t numbers_len, int32_t default_value) {
    int i, idx = -1, l = 0;
    char e[EH];
    (void) numbers; (void) numbers_len; (void) default_value;
    for (i = 0; i < 8; i++) if (pattern == cmds[i].pattern) idx = i;
    for (i = 0; i < EH; i++) {
        if (i < (int) len && cmd[i] != 0 && l == i) { e[i] = cmd[i]; l = i + 1; }
    }
    if (len > EH) return FALSE;
    return idx >= 0 && ref_lookup_entry(e, l, idx);
}
#endif

void harness(void) {
    int i, u, pos, nu = 0;
    int exp_tag[MAXU], exp_n = 0, exp_undef = 0;
    char exp_raw[MAXU][EH];
    int exp_rawlen[MAXU];
    int undef_start[MAXU], undef_hlen[MAXU];
    char prev[EH];
    int prevlen = 0, prev_common = 0;
    VIN_INIT();
#ifdef MENU
    /* structured variant: MENU units, each one of eight header spellings (symbolic choice), joined by ';', ended by LF.
     * Reaches 3- and 4-unit messages (compound header, common command in the middle, relative header, undefined unit ...)
     * that the free-text variant cannot afford. */
    {
        static const char * const menu[8] = {"A:B", "A:C", ":A:B", "*C", "C", "B", "C?", "A:B:C"};
        int u2, k2;
        n = 0;
        for (u2 = 0; u2 < MENU; u2++) {
            const char * m = menu[vin.sel[u2] & 7];
            if (u2 > 0) orig[n++] = ';';
            for (k2 = 0; k2 < 5; k2++) if (m[k2] && (k2 == 0 || m[k2 - 1])) orig[n++] = m[k2];
        }
        orig[n++] = '\n';
        for (i = 0; i < N; i++) {
            if (i >= n) orig[i] = 0;
            buf[i] = orig[i];
        }
    }
#elif defined(TMPL)
    {
        static const char tmpl[] = TMPL;
        n = (int) sizeof tmpl - 1;
        for (i = 0; i < N; i++) {
            orig[i] = i < n ? tmpl[i] : 0;
            buf[i] = orig[i];
        }
    }
#elif defined(SHAPE)
    /* shaped variant: the positions of ':' ';' '*' '?' and LF are concrete (-DSHAPE), every '#' is a symbolic letter of
     * {A B C}.  With the unit boundaries fixed the lexers run on concrete positions, which makes 3- and 4-unit messages
     * (compound header, common command in the middle, relative header, undefined units ...) affordable in the quick tier. */
    {
        static const char shape[] = SHAPE;
        n = (int) sizeof shape - 1;
        for (i = 0; i < N; i++) {
            if (i < n && shape[i] == '#') { VASSUME((vin.sel[i] & 3) < 3); orig[i] = alphabet[vin.sel[i] & 3]; }
            else orig[i] = i < n ? shape[i] : 0;
            buf[i] = orig[i];
        }
    }
#else
    n = vin.len;
    VASSUME(n >= 1 && n <= N);
    for (i = 0; i < N; i++) {
        orig[i] = i < n ? alphabet[vin.sel[i] & 7] : 0;
        buf[i] = orig[i];
    }
#endif
    orig[N] = 0;
    buf[N] = 0;

    /* ---- reference: split into units, require well-formedness, compute effective headers */
    pos = 0;
    for (u = 0; u < MAXU; u++) {
        if (pos < n) {
            scpi_token_type_t ht;
            int hl = r_header(pos, &ht), el = 0, k;
            char eff[EH];
            VASSUME(r_is_complete_header(ht));
            VASSUME(hl + prevlen < EH);
            if (at(pos) == ':' || at(pos) == '*' || prev_common || u == 0) {
                for (k = 0; k < N; k++) if (k < hl) eff[el++] = (char) at(pos + k);
            } else {
                int last = 0;
                for (k = 0; k < EH; k++) if (k < prevlen && prev[k] == ':') last = k + 1;
                for (k = 0; k < EH; k++) if (k < last) eff[el++] = prev[k];
                for (k = 0; k < N; k++) if (k < hl) eff[el++] = (char) at(pos + k);
            }
            {
#ifdef TMPL
                int idx = -1, key, b;
                for (k = 0; k < EH; k++) tm_eff[u][k] = k < el ? eff[k] : 0;
                tm_efflen[u] = el;
                tm_units = u + 1;
                key = tm_key(eff, el);
                for (b = 7; b >= 0; b--) if ((vin.acc[key] >> b) & 1) idx = b; /* first accepting entry */
#else
                int idx = ref_lookup(eff, el);
#endif
                if (idx >= 0) {
                    exp_tag[exp_n] = idx;
                    exp_rawlen[exp_n] = el;
                    for (k = 0; k < EH; k++) exp_raw[exp_n][k] = k < el ? eff[k] : 0;
                    exp_n++;
                } else {
                    undef_start[exp_undef] = pos;
                    undef_hlen[exp_undef] = hl;
                    exp_undef++;
                }
            }
            for (k = 0; k < EH; k++) prev[k] = k < el ? eff[k] : 0;
            prevlen = el;
            prev_common = at(pos) == '*';
            pos += hl;
            nu++;
            /* separator or end */
            if (at(pos) == ';') {
                pos++;
                VASSUME(pos < n); /* no empty unit behind a separator */
            } else if (at(pos) == '\n') {
                pos++;
                VASSUME(pos == n); /* the terminator ends the message */
            } else {
                VASSUME(pos == n);
            }
        }
    }
    VASSUME(pos == n); /* at most MAXU units */

    ctx.cmdlist = cmds;
    ctx.interface = &hx_interface;
    ctx.error_queue.data = queue;
    ctx.error_queue.size = 8;
    SCPI_Parse(&ctx, buf, n);

#ifdef TMPL
    VASSERT(!tm_bad_text, "C02 the table is only ever searched for a unit's effective header (path of the preceding unit's effective header + header as written)");
#endif
    VASSERT(t_n == exp_n, "C02 exactly the units with a matching command run a handler, once each");
    for (u = 0; u < MAXU; u++) {
        if (u < exp_n && u < t_n) {
            VASSERT(t_tag[u] == exp_tag[u], "C02 units run in message order the FIRST table entry accepting their effective header");
            VASSERT(t_iscmd[u], "C02 the handler can recover the matched entry (SCPI_IsCmd on the entry's header)");
            VASSERT(t_rawlen[u] == exp_rawlen[u], "C02 the handler sees the effective header (length)");
            for (i = 0; i < EH; i++) if (i < exp_rawlen[u]) VASSERT(t_raw[u][i] == exp_raw[u][i], "C02 the handler sees the effective header (text): path of the preceding unit's effective header + header");
        }
    }
    VASSERT(ctx.error_queue.count == exp_undef, "C02 every unit without a matching command queues exactly one error and no other error is raised");
    for (u = 0; u < MAXU; u++) {
        if (u < exp_undef) {
            VASSERT(queue[u].error_code == SCPI_ERROR_UNDEFINED_HEADER, "C02 an unmatched effective header queues -113");
#if USE_DEVICE_DEPENDENT_ERROR_INFORMATION
            VASSERT(queue[u].device_dependent_info != NULL, "C02 -113 carries the offending text");
            if (queue[u].device_dependent_info != NULL) {
                for (i = 0; i < N; i++) if (i < undef_hlen[u]) VASSERT(queue[u].device_dependent_info[i] == orig[undef_start[u] + i], "C02 -113 carries the offending unit text as written");
            }
#endif
        }
    }
    if (nu >= 2 && exp_n >= 2 && exp_rawlen[1] > 3) VWITNESS("compound-path-applied");
    if (exp_undef >= 1 && exp_n >= 1) VWITNESS("defined-and-undefined");
    VWITNESS("end");
}
