/* C14 - integer -> text conversion: real UInt32ToStrBaseSign / UInt64ToStrBaseSign and the public wrappers.
 * Oracle = decode-back (Horner over the produced digits) + canonical-form predicates + truncation relation.
 * Compile-time parameters: WIDTH (32|64), BASE (2|8|10|16|other => "any other base means 10"),
 *   MAG_LO/MAG_HI  optional inclusive magnitude slice (stated bound of the case),
 *   API (0 = XToStrBaseSign, 1 = public wrappers SCPI_Int*ToStr / SCPI_UInt*ToStrBase).
 */
#include "scpi/scpi.h"
#include "utils_private.h"

#ifndef WIDTH
#define WIDTH 32
#endif
#ifndef BASE
#define BASE 10
#endif
#ifndef API
#define API 0
#endif
/* MODE 1 = canonical form + decode-back of the full conversion; MODE 2 = truncation relation; 3 = both */
#ifndef MODE
#define MODE 3
#endif

#if WIDTH == 32
typedef uint32_t uval_t;
typedef int32_t sval_t;
#define MAXDIG 33
#else
typedef uint64_t uval_t;
typedef int64_t sval_t;
#define MAXDIG 65
#endif

#define FULL 70
#if (BASE == 2 || BASE == 8 || BASE == 16)
#define EBASE BASE
#else
#define EBASE 10
#endif

#define VIN_FIELDS(F, A) \
    F(uint64_t, val) \
    F(uint8_t, sign) \
    F(char, fill) \
    F(uint8_t, len)
#include "vin.h"
#include <stdlib.h>

static size_t conv(uval_t v, char * str, size_t len, int sign) {
#if API == 0
#if WIDTH == 32
    return UInt32ToStrBaseSign(v, str, len, (int8_t) BASE, sign ? TRUE : FALSE);
#else
    return UInt64ToStrBaseSign(v, str, len, (int8_t) BASE, sign ? TRUE : FALSE);
#endif
#else
    /* public wrappers: signed decimal, or unsigned in a base */
#if WIDTH == 32
    if (sign) return SCPI_Int32ToStr((int32_t) v, str, len);
    return SCPI_UInt32ToStrBase(v, str, len, (int8_t) BASE);
#else
    if (sign) return SCPI_Int64ToStr((int64_t) v, str, len);
    return SCPI_UInt64ToStrBase(v, str, len, (int8_t) BASE);
#endif
#endif
}

void harness(void) {
    char full[FULL + 2];
    uval_t v, mag, acc;
    int ebase, neg, sign;
    size_t r, r2, p, i, expect;
    size_t len;
    char t[FULL + 4];

    VIN_INIT();
    v = (uval_t) vin.val;
    sign = vin.sign & 1;
    len = vin.len;
    VASSUME(len <= FULL);
#if API == 1
    /* wrappers: the signed wrapper is decimal only */
    VASSUME(!sign || BASE == 10);
#endif
    ebase = EBASE;
    neg = sign && ((sval_t) v < 0) && ebase == 10;
    mag = neg ? (uval_t) (0 - v) : v;
#ifdef MAG_HI
    VASSUME(mag >= (uval_t) MAG_LO && mag <= (uval_t) MAG_HI);
#endif

    full[FULL] = 0x55;
    full[FULL + 1] = 0x55;
    r = conv(v, full, FULL, sign);

    VASSERT(r >= 1 && r <= MAXDIG, "C14 length of the full conversion is between 1 and width+1");
    VASSERT(full[r] == 0, "C14 full conversion is NUL-terminated at the returned length");
    VASSERT(full[FULL] == 0x55 && full[FULL + 1] == 0x55, "C14 canary behind the full buffer untouched");
#if MODE & 1
    p = 0;
    if (neg) {
        VASSERT(full[0] == '-', "C14 negative signed decimal starts with '-'");
        p = 1;
    }
    VASSERT(r > p, "C14 at least one digit");
    VASSERT(full[p] != '-', "C14 '-' only for negative signed decimals");
    VASSERT(r - p == 1 || full[p] != '0', "C14 no leading zero");
    acc = 0;
    for (i = p; i < r; i++) {
        int c = (unsigned char) full[i];
        /* branch-free on purpose: under --paths every if on a symbolic value forks the exploration */
        int d = (c >= '0' && c <= '9') ? c - '0' : ((c >= 'A' && c <= 'F') ? c - 'A' + 10 : 99);
        VASSERT(d < ebase, "C14 every character is an upper-case digit of the base");
        VASSERT(acc <= (((uval_t) ~(uval_t) 0) - (uval_t) d) / (uval_t) ebase, "C14 digits do not overflow the width");
        acc = acc * (uval_t) ebase + (uval_t) d;
    }
    VASSERT(acc == mag, "C14 digits decode back to the magnitude");
#if !(MODE & 2)
    VWITNESS("decoded");
#if EBASE == 10
    if (neg) VWITNESS("negative");
#endif
#endif
#endif
#if MODE & 4
    /* Remainder-chain form of the decode-back oracle (no division, no Horner product chain): with rem_0 = magnitude and
     * rem_{i+1} = rem_i - d_i * base^(n-1-i) every step must stay non-negative and end below base^(n-1-i); then the digits
     * are the base-b expansion of the magnitude (rem_n < base^0 = 1).  Each step mirrors one iteration of the implementation's
     * own divide/subtract, so the solver discharges it locally - this is what makes base 10 tractable for ALL values. */
    {
        static const uval_t powt[] = POW_TABLE;  /* base^j, j = 0.. */
        static const uint8_t maxd[] = MAXD_TABLE; /* largest digit whose product with base^j fits the width */
        uval_t rem = mag;
        size_t nd, j;
        p = neg ? 1 : 0;
        if (neg) VASSERT(full[0] == '-', "C14 negative signed decimal starts with '-'");
        VASSERT(r > p, "C14 at least one digit");
        nd = r - p;
        VASSERT(nd <= sizeof powt / sizeof powt[0], "C14 no more digits than the width can need");
        VASSERT(nd == 1 || full[p] != '0', "C14 no leading zero");
        for (i = p; i < r; i++) {
            int c = (unsigned char) full[i];
            int d = (c >= '0' && c <= '9') ? c - '0' : ((c >= 'A' && c <= 'F') ? c - 'A' + 10 : 99);
            uval_t pw, prod;
            j = nd - 1 - (i - p);
            pw = powt[j];
            VASSERT(d < ebase, "C14 every character is an upper-case digit of the base");
            VASSERT(d <= maxd[j], "C14 digit times its place value fits the width");
            prod = (uval_t) d * pw;
            VASSERT(prod <= rem, "C14 digit does not exceed what is left of the magnitude");
            rem -= prod;
            VASSERT(rem < pw, "C14 what is left is below the digit's place value (digits are the expansion of the magnitude)");
        }
        VASSERT(rem == 0, "C14 digits decode back to the magnitude");
        VASSERT(full[r] == 0, "C14 full conversion is NUL-terminated at the returned length");
#if !(MODE & 3)
        VWITNESS("decoded");
#if EBASE == 10
        if (neg) VWITNESS("negative");
#endif
#endif
    }
#endif
#if MODE & 2

    /* truncation: every length 0..FULL; everything at and behind t[len] holds an arbitrary fill byte that must
     * survive (a dynamically sized object made the formula explode: 11 GB / no verdict in 300 s) */
    for (i = 0; i < FULL + 4; i++) t[i] = vin.fill;
    r2 = conv(v, t, len, sign);
    expect = r < len ? r : len;
    VASSERT(r2 == expect, "C14 truncated call returns min(full length, buffer length)");
    for (i = 0; i < r2; i++) {
        VASSERT(t[i] == full[i], "C14 truncated call produces the leading characters of the full text");
    }
    if (r2 < len) {
        VASSERT(t[r2] == 0, "C14 NUL added whenever a byte remains");
    }
    for (i = 0; i < FULL + 4; i++) {
        if (i >= len) VASSERT(t[i] == vin.fill, "C14 nothing written at or beyond the stated buffer length");
    }
    if (r2 == r && r2 < len) VWITNESS("fits");
    if (r2 < r) VWITNESS("truncated");
#if EBASE == 10
    if (neg) VWITNESS("negative");
#endif
#endif
}
