/* C06 - responses are framed: ';' between units, ',' between items, one terminator.
 * Real SCPI_Parse on a CONCRETE message template (-DTEMPLATE="QCQ": one unit per letter, Q = query header, C = command
 * header; the text "A?;B;C?\r\n" is built from it) with SYMBOLIC handler behaviour per unit: 0..3 result items drawn from
 * {bool, int32, text, mnemonic, arbitrary block, streamed block}, an error pushed before / between / after the items or not,
 * return value OK or ERR.  The carried-over response state of the context (first_output, output_count, ...) is ARBITRARY
 * before the call, so the result holds after any previous message.
 * Oracle: the exact output bytes are the item lists of the units that emitted something, items joined by ',', units joined
 * by ';', followed by one line terminator and exactly one flush iff anything was emitted; otherwise no byte and no flush.
 */
#ifndef OUTMAX
#define OUTMAX 64
#endif
#define HX_OUT_MAX OUTMAX
#include "hctx.h"
#include <string.h>
#include "libc.h"

#ifndef TEMPLATE
#define TEMPLATE "QQ"
#endif
#define K ((int) sizeof(TEMPLATE) - 1)
#ifndef MAXI
#define MAXI 3
#endif

#define VIN_FIELDS(F, A) \
    A(uint8_t, nitems, 6) \
    A(uint8_t, kind, 6 * MAXI) \
    A(uint8_t, ret_err, 6) \
    A(uint8_t, push_at, 6) \
    F(uint8_t, pre_first_output) \
    F(int16_t, pre_output_count) \
    F(int16_t, pre_input_count) \
    F(uint32_t, pre_arbitrary_remaining) \
    F(uint8_t, pre_cmd_error)
#include "vin.h"

static const char tmpl[] = TEMPLATE;
static scpi_t ctx;
static scpi_error_t queue[8];
static char msg[64];
static char expect[HX_OUT_MAX + 8];
static int elen;
static int calls[6];

#define NKINDS 18
#ifndef KBASE
#define KBASE 0 /* result kinds KBASE..KBASE+5 are used by this case (all twelve at once did not finish in 600 s) */
#endif
static const char * const item_text[NKINDS] = {"1", "7", "\"x\"", "M", "#11a", "#12cd", "#H1FF", "#B101", "-3", "1.5", "2.5", "#Q17",
                                               "#10", "#10", "1,2", "ab", "200", "-5"};

static void emit(scpi_t * c, int kind) {
    switch (kind) {
        case 0: SCPI_ResultBool(c, TRUE); break;
        case 1: SCPI_ResultInt32(c, 7); break;
        case 2: SCPI_ResultText(c, "x"); break;
        case 3: SCPI_ResultMnemonic(c, "M"); break;
        case 4: SCPI_ResultArbitraryBlock(c, "a", 1); break;
        case 5:
            SCPI_ResultArbitraryBlockHeader(c, 2);
            SCPI_ResultArbitraryBlockData(c, "c", 1);
            SCPI_ResultArbitraryBlockData(c, "d", 1);
            break;
        case 6: SCPI_ResultUInt64Base(c, 0x1FF, 16); break;
        case 7: SCPI_ResultUInt32Base(c, 5, 2); break;
        case 8: SCPI_ResultInt64(c, -3); break;
        case 9: vm_snprintf_text = "1.5"; SCPI_ResultDouble(c, 1.5); break;
        case 10: vm_snprintf_text = "2.5"; SCPI_ResultFloat(c, 2.5f); break;
        case 11: SCPI_ResultUInt64Base(c, 15, 8); break;
        case 12: SCPI_ResultArbitraryBlock(c, "", 0); break; /* empty block */
        case 13: { static const int16_t none[1] = {0}; SCPI_ResultArrayInt16(c, none, 0, SCPI_FORMAT_NORMAL); break; } /* empty binary array */
        case 14: { static const uint8_t two[2] = {1, 2}; SCPI_ResultArrayUInt8(c, two, 2, SCPI_FORMAT_ASCII); break; } /* two items */
        case 15: SCPI_ResultCharacters(c, "ab", 2); break;
        case 16: SCPI_ResultUInt8(c, 200); break;
        default: SCPI_ResultInt16(c, -5); break;
    }
}

static scpi_result_t handler(scpi_t * c) {
    int u = SCPI_CmdTag(c), i, n;
    calls[u]++;
    n = vin.nitems[u] % (MAXI + 1);
    for (i = 0; i < MAXI; i++) {
        if (i < n) {
            if ((vin.push_at[u] & 7) == i + 1) SCPI_ErrorPush(c, SCPI_ERROR_EXECUTION_ERROR);
            emit(c, KBASE + vin.kind[u * MAXI + i] % 6);
        }
    }
    if ((vin.push_at[u] & 7) == 5) SCPI_ErrorPush(c, SCPI_ERROR_EXECUTION_ERROR);
    return (vin.ret_err[u] & 1) ? SCPI_RES_ERR : SCPI_RES_OK;
}

static const scpi_command_t cmds[] = {
    {"A", handler, 0}, {"A?", handler, 0}, {"B", handler, 1}, {"B?", handler, 1}, {"C", handler, 2}, {"C?", handler, 2},
    {"D", handler, 3}, {"D?", handler, 3}, {"E", handler, 4}, {"E?", handler, 4}, {"F", handler, 5}, {"F?", handler, 5},
    SCPI_CMD_LIST_END
};

static void app(const char * s) {
    while (*s) expect[elen++] = *s++;
}

void harness(void) {
    int u, i, p = 0, any = 0;
    VIN_INIT();
    /* message text */
    for (u = 0; u < K; u++) {
        if (u > 0) msg[p++] = ';';
        msg[p++] = (char) ('A' + u);
        if (tmpl[u] == 'Q') msg[p++] = '?';
    }
    msg[p++] = '\r';
    msg[p++] = '\n';
    msg[p] = 0;
    /* context with arbitrary carried-over response state */
    ctx.cmdlist = cmds;
    ctx.interface = &hx_interface;
    ctx.error_queue.data = queue;
    ctx.error_queue.size = 8;
    ctx.first_output = vin.pre_first_output & 1;
    ctx.output_count = vin.pre_output_count;
    ctx.input_count = vin.pre_input_count;
    ctx.arbitrary_remaining = vin.pre_arbitrary_remaining;
    ctx.cmd_error = vin.pre_cmd_error & 1;

    /* a handler of a non-query header may emit results too (then its unit is a response unit like any other) */
    /* expected output */
    elen = 0;
    for (u = 0; u < K; u++) {
        int n = vin.nitems[u] % (MAXI + 1);
        if (n > 0) {
            if (any) app(";");
            for (i = 0; i < MAXI; i++) {
                if (i < n) {
                    if (i > 0) app(",");
                    app(item_text[KBASE + vin.kind[u * MAXI + i] % 6]);
                }
            }
            any = 1;
        }
    }
    if (any) app("\r\n");

    SCPI_Parse(&ctx, msg, p);

    for (u = 0; u < K; u++) VASSERT(calls[u] == 1, "C06 every unit's handler runs exactly once");
    VASSERT(!hx_out_overflow, "P: output log large enough");
    VASSERT((int) hx_out_len == elen, "C06 output length: item lists joined by ',', responding units joined by ';', one terminator iff anything responded");
    for (i = 0; i < HX_OUT_MAX; i++) if (i < elen && i < (int) hx_out_len) VASSERT(hx_out[i] == expect[i], "C06 output bytes are exactly the framed response");
    VASSERT(hx_flush_calls == (any ? 1 : 0), "C06 exactly one flush iff at least one unit responded");
    if (any) VASSERT(hx_flush_at == hx_out_len, "C06 the flush comes after the terminator");
    if (any) VWITNESS("responded"); /* (only looked for when the template has a query) */
    if (!any) VWITNESS("silent");
}
