/* C09 - messages and units are isolated: nothing but status and errors carries over.
 * Two contexts.  Side 1 first runs message A (-DMSGA, concrete text; its handlers behave symbolically: emit items, fail,
 * push errors, read some parameters, or leave a streamed block unfinished), then message B.  Side 2 is fresh and runs
 * only B.  In addition (-DHAVOC=1) side 1's carried-over parser fields - first_output, output_count, input_count,
 * cmd_error, arbitrary_remaining, the pending-separator flag, parser_state and param_list - are overwritten with
 * ARBITRARY values before B, which makes the check independent of what any earlier message could have left behind.
 * B's handlers behave identically (same symbolic choices) on both sides.  Compared for B: handler invocations in order
 * (tag, effective header text, the parameters read and their values), output bytes, the errors raised, the return value.
 * Status registers and the error queue themselves are not compared (the statement exempts what flows through them).
 */
#include "scpi/scpi.h"
#include <string.h>

#ifndef MSGA
#define MSGA "X:Y 1,2;Z?\n"
#endif
#ifndef MSGB
#define MSGB "Y 7;Z? 3,4\n"
#endif
#ifndef HAVOC
#define HAVOC 1
#endif
#ifndef A_READ
#define A_READ 0
#endif
#ifndef B_READ
#define B_READ 2
#endif
#define OUTMAX 48
#define TR 8

#define VIN_FIELDS(F, A) \
    A(uint8_t, a_nitems, 4) \
    A(uint8_t, a_mode, 4) \
    A(uint8_t, b_nitems, 4) \
    A(uint8_t, b_mode, 4) \
    A(uint8_t, b_nread, 4) \
    F(uint8_t, h_first_output) \
    F(uint8_t, h_sep) \
    F(uint8_t, h_cmd_error) \
    F(int16_t, h_output_count) \
    F(int16_t, h_input_count) \
    F(uint32_t, h_remaining) \
    F(int32_t, h_ps_len) \
    F(int32_t, h_ps_type) \
    F(int32_t, h_ps_np) \
    F(int32_t, h_pl_len)
#include "vin.h"

struct side {
    scpi_t ctx;
    scpi_error_t queue[8];
    char out[OUTMAX];
    int outlen, flushes;
    int errs[TR], nerr;
    int tags[TR], nread[TR], vals[TR][2], rawlen[TR];
    char raw[TR][12];
    int ncalls;
    int phase; /* 0 = message A, 1 = message B */
};
static struct side s1, s2;

static struct side * side_of(scpi_t * c) {
    return c == &s1.ctx ? &s1 : &s2;
}

static size_t w_write(scpi_t * c, const char * d, size_t len) {
    struct side * s = side_of(c);
    size_t i;
    if (s->phase == 1) for (i = 0; i < len; i++) if (s->outlen < OUTMAX) s->out[s->outlen++] = d[i];
    return len;
}

static scpi_result_t w_flush(scpi_t * c) {
    struct side * s = side_of(c);
    if (s->phase == 1) s->flushes++;
    return SCPI_RES_OK;
}

static int w_error(scpi_t * c, int_fast16_t e) {
    struct side * s = side_of(c);
    if (s->phase == 1 && s->nerr < TR) s->errs[s->nerr] = (int) e;
    if (s->phase == 1) s->nerr++;
    return 0;
}

static scpi_interface_t w_if = {w_error, w_write, NULL, w_flush, NULL};

static scpi_result_t handler(scpi_t * c) {
    struct side * s = side_of(c);
    int tag = SCPI_CmdTag(c), i, k = tag & 3;
    if (s->phase == 0) {
        /* message A: misbehave in every way a handler can */
        int n = vin.a_nitems[k] % 3, mode = vin.a_mode[k] % 5;
        int32_t v;
#if A_READ
        SCPI_ParamInt32(c, &v, TRUE); /* read only the first parameter, leave the rest unread */
#else
        (void) v;
#endif
        for (i = 0; i < n; i++) SCPI_ResultInt32(c, 5);
        if (mode == 1) SCPI_ErrorPush(c, SCPI_ERROR_EXECUTION_ERROR);
        if (mode == 4) { SCPI_ResultArbitraryBlockHeader(c, 9); SCPI_ResultArbitraryBlockData(c, "ab", 2); } /* block left unfinished */
        return mode == 2 ? SCPI_RES_ERR : SCPI_RES_OK;
    } else {
        int idx = s->ncalls, n = vin.b_nitems[k] % 3, mode = vin.b_mode[k] % 3, want = B_READ; /* concrete: a symbolic parameter cursor made symex explode */
        if (idx < TR) {
            s->tags[idx] = tag;
            s->rawlen[idx] = (int) c->param_list.cmd_raw.length;
            for (i = 0; i < 12; i++) s->raw[idx][i] = i < (int) c->param_list.cmd_raw.length ? c->param_list.cmd_raw.data[i] : 0;
            s->nread[idx] = 0;
            for (i = 0; i < 2; i++) {
                int32_t v = -77;
                if (i < want) {
                    if (SCPI_ParamInt32(c, &v, i == 0)) s->nread[idx]++;
                    s->vals[idx][i] = v;
                } else {
                    s->vals[idx][i] = -78;
                }
            }
        }
        s->ncalls++;
        for (i = 0; i < n; i++) SCPI_ResultInt32(c, 6);
        if (mode == 1) SCPI_ErrorPush(c, SCPI_ERROR_EXECUTION_ERROR);
        return mode == 2 ? SCPI_RES_ERR : SCPI_RES_OK;
    }
}

static const scpi_command_t cmds[] = {
    {"X:Y", handler, 0}, {"X:Z?", handler, 1}, {"Y", handler, 2}, {"Z?", handler, 3}, {"X:W", handler, 4},
    SCPI_CMD_LIST_END
};

static char bufa[32], bufb1[32], bufb2[32];
static const char msga[] = MSGA;
static const char msgb[] = MSGB;

static void init(struct side * s) {
    s->ctx.cmdlist = cmds;
    s->ctx.interface = &w_if;
    s->ctx.error_queue.data = s->queue;
    s->ctx.error_queue.size = 8;
}

void harness(void) {
    int i;
    scpi_bool_t r1, r2;
    VIN_INIT();
    init(&s1);
    init(&s2);
    for (i = 0; i < (int) sizeof msga; i++) bufa[i] = msga[i];
    for (i = 0; i < (int) sizeof msgb; i++) { bufb1[i] = msgb[i]; bufb2[i] = msgb[i]; }

    s1.phase = 0;
    SCPI_Parse(&s1.ctx, bufa, (int) sizeof msga - 1);
#if HAVOC
    s1.ctx.first_output = vin.h_first_output & 1;
    s1.ctx.unit_separator_pending = vin.h_sep & 1;
    s1.ctx.cmd_error = vin.h_cmd_error & 1;
    s1.ctx.output_count = vin.h_output_count;
    s1.ctx.input_count = vin.h_input_count;
    s1.ctx.arbitrary_remaining = vin.h_remaining;
    s1.ctx.parser_state.programHeader.len = vin.h_ps_len;
    s1.ctx.parser_state.programHeader.type = (scpi_token_type_t) vin.h_ps_type;
    s1.ctx.parser_state.programHeader.ptr = bufa;
    s1.ctx.parser_state.programData = s1.ctx.parser_state.programHeader;
    s1.ctx.parser_state.numberOfParameters = vin.h_ps_np;
    s1.ctx.parser_state.termination = SCPI_MESSAGE_TERMINATION_SEMICOLON;
    s1.ctx.param_list.lex_state.len = vin.h_pl_len;
    s1.ctx.param_list.cmd_raw.length = (size_t) vin.h_pl_len;
#endif
    s1.phase = 1;
    s2.phase = 1;
    r1 = SCPI_Parse(&s1.ctx, bufb1, (int) sizeof msgb - 1);
    r2 = SCPI_Parse(&s2.ctx, bufb2, (int) sizeof msgb - 1);

    VASSERT((r1 ? 1 : 0) == (r2 ? 1 : 0), "C09 B's result does not depend on the message before it");
    VASSERT(s1.ncalls == s2.ncalls, "C09 B invokes the same handlers after A as on a fresh context (count)");
    for (i = 0; i < TR; i++) {
        if (i < s1.ncalls && i < s2.ncalls) {
            int k;
            VASSERT(s1.tags[i] == s2.tags[i], "C09 B invokes the same handlers in the same order");
            VASSERT(s1.rawlen[i] == s2.rawlen[i], "C09 B's units see the same effective header (the compound path does not leak from A)");
            for (k = 0; k < 12; k++) VASSERT(s1.raw[i][k] == s2.raw[i][k], "C09 B's units see the same effective header text");
            VASSERT(s1.nread[i] == s2.nread[i] && s1.vals[i][0] == s2.vals[i][0] && s1.vals[i][1] == s2.vals[i][1], "C09 B's handlers read the same parameters (the parameter cursor does not leak)");
        }
    }
    VASSERT(s1.outlen == s2.outlen && s1.flushes == s2.flushes, "C09 B produces the same amount of output and flushes (separator / item accounting does not leak)");
    for (i = 0; i < OUTMAX; i++) if (i < s1.outlen && i < s2.outlen) VASSERT(s1.out[i] == s2.out[i], "C09 B produces the same output bytes");
    VASSERT(s1.nerr == s2.nerr, "C09 B raises the same number of new errors");
    for (i = 0; i < TR; i++) if (i < s1.nerr && i < s2.nerr) VASSERT(s1.errs[i] == s2.errs[i], "C09 B raises the same new errors");
    if (s2.ncalls >= 2 && s2.outlen > 0) VWITNESS("b-ran-and-responded");
    VWITNESS("end");
}
