/* Observation points of the libc contract models (CBMC build) / recording wrappers (native -DREPLAY build). */
#ifndef VERIF_MODELS_LIBC_H
#define VERIF_MODELS_LIBC_H
#include <stddef.h>

/* last strto* call: where it started and how many bytes it consumed, number of calls so far */
extern const char * vm_strto_nptr;
extern long vm_strto_consumed;
extern int vm_strto_calls;
extern int vm_strto_base;
extern double vm_strtod_value; /* value returned by the last strtod/strtof */

/* allocation-fault injection for strndup: the k-th strndup call fails iff bit k of the mask is set */
extern unsigned vm_alloc_fail_mask;
extern unsigned vm_alloc_calls;
extern unsigned vm_alloc_live; /* strndup results not yet freed are tracked by the harness, not here */

/* snprintf contract model: the text "printed" is supplied by the harness (table-driven, so that the CBMC
 * build and the native build agree); records the size argument and the format pointer */
extern const char * vm_snprintf_text;
extern size_t vm_snprintf_size;
extern const char * vm_snprintf_fmt;
extern char * vm_snprintf_dst;
extern int vm_snprintf_calls;

/* digit value of c in base, -1 if none (CBMC build only; shared with harness contract stubs so that both sides of a
 * round trip build literally the same Horner expression) */
int vm_digit(int c, int base);

#endif
