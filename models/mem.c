/* Loop-based memmove/memcpy/memset for the CBMC build (opt-in per case via extra_c).
 * CBMC 6.11's built-in models of these functions go through a variable-size byte array; combined with array field
 * sensitivity they lost writes when the pointer designated the first element of a small array (observed in C20, see
 * DESIGN.md).  These plain byte loops have no such issue; their trip counts are bounded by unwinding assertions. */
#ifndef REPLAY
#include <stddef.h>

void * memmove(void * dest, const void * src, size_t n) {
    unsigned char * d = (unsigned char *) dest;
    const unsigned char * s = (const unsigned char *) src;
    size_t i;
    if (d == s || n == 0) return dest;
    if (__CPROVER_POINTER_OBJECT(d) == __CPROVER_POINTER_OBJECT(s) && d > s) {
        for (i = n; i > 0; i--) d[i - 1] = s[i - 1];
    } else {
        for (i = 0; i < n; i++) d[i] = s[i];
    }
    return dest;
}

void * memcpy(void * dest, const void * src, size_t n) {
    unsigned char * d = (unsigned char *) dest;
    const unsigned char * s = (const unsigned char *) src;
    size_t i;
    for (i = 0; i < n; i++) d[i] = s[i];
    return dest;
}

void * memset(void * dest, int c, size_t n) {
    unsigned char * d = (unsigned char *) dest;
    size_t i;
    for (i = 0; i < n; i++) d[i] = (unsigned char) c;
    return dest;
}
#endif
