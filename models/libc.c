/* libc contract models for the CBMC build (CBMC 6.11 ships no body for these), and recording wrappers for the
 * native -DREPLAY build (linked with -Wl,--wrap=...), so the same harness observes the same facts in both.
 *
 * Contracts modelled (ISO C / glibc behaviour, "C" locale):
 *  strtol/strtoul/strtoll/strtoull: optional isspace run, optional sign, optional 0x/0X prefix when base==16 and a
 *      hex digit follows, maximal digit run in the base, value exact with saturation (errno not modelled), endptr =
 *      after the last digit or nptr when there is no digit.  base 0 is not used by libscpi and not modelled.
 *  strtod/strtof: consumed prefix exact for decimal, hexadecimal (0x..p..) and inf/infinity/nan forms (the nan(...)
 *      form is not modelled; no libscpi token can start with it).  Value: exact for a plain decimal integer of at most
 *      15 digits (exactly representable), otherwise an arbitrary double (recorded in vm_strtod_value); libc's rounding
 *      is trusted, it is not code of the repository.
 *  strnlen: exact.   strndup: malloc(strnlen+1)+copy, fails when the fault mask says so.
 *  snprintf: writes min(strlen(text), size-1) bytes of the harness-supplied text + NUL when size>0, returns
 *      strlen(text); never touches the buffer when size==0.
 *  frexp/modf are taken from CBMC's math models when needed.
 */
#include <stddef.h>
#include <stdarg.h>
#include <limits.h>
#include <ctype.h>
#include <stdlib.h>
#include <string.h>
#include <stdio.h>
#include "libc.h"

const char * vm_strto_nptr;
long vm_strto_consumed;
int vm_strto_calls;
int vm_strto_base;
double vm_strtod_value;
unsigned vm_alloc_fail_mask;
unsigned vm_alloc_calls;
unsigned vm_alloc_live;
const char * vm_snprintf_text;
size_t vm_snprintf_size;
const char * vm_snprintf_fmt;
char * vm_snprintf_dst;
int vm_snprintf_calls;

#ifndef REPLAY
/* ------------------------------------------------------------------ CBMC models */
double nondet_double(void);

int vm_digit(int c, int base) {
    int d;
    if (c >= '0' && c <= '9') d = c - '0';
    else if (c >= 'a' && c <= 'z') d = c - 'a' + 10;
    else if (c >= 'A' && c <= 'Z') d = c - 'A' + 10;
    else return -1;
    return d < base ? d : -1;
}

static int vm_isspace(int c) {
    return c == ' ' || (c >= 9 && c <= 13);
}

/* common scanner: returns magnitude (saturating, *ovf set), sign, consumed length */
static unsigned long long vm_scan(const char * s, int base, int * neg, int * ovf, long * consumed) {
    long i = 0;
    long start;
    unsigned long long acc = 0;
    *neg = 0;
    *ovf = 0;
    while (vm_isspace((unsigned char) s[i])) i++;
    if (s[i] == '+') i++;
    else if (s[i] == '-') {
        *neg = 1;
        i++;
    }
    if (base == 16 && s[i] == '0' && (s[i + 1] == 'x' || s[i + 1] == 'X') && vm_digit((unsigned char) s[i + 2], 16) >= 0) {
        i += 2;
    }
    start = i;
    {
        /* overflow test without a per-digit division (a 64-bit divider per digit dominated the formula) */
        const unsigned long long lim = ULLONG_MAX / (unsigned long long) base;
        const unsigned long long rem = ULLONG_MAX % (unsigned long long) base;
        while (vm_digit((unsigned char) s[i], base) >= 0) {
            unsigned long long d = (unsigned long long) vm_digit((unsigned char) s[i], base);
            if (acc > lim || (acc == lim && d > rem)) {
                *ovf = 1;
                acc = ULLONG_MAX;
            } else if (!*ovf) {
                acc = acc * (unsigned long long) base + d;
            }
            i++;
        }
    }
    if (i == start) {
        *consumed = 0;
        return 0;
    }
    *consumed = i;
    return acc;
}

static void vm_record(const char * nptr, long consumed, int base) {
    vm_strto_nptr = nptr;
    vm_strto_consumed = consumed;
    vm_strto_base = base;
    vm_strto_calls++;
}

long strtol(const char * nptr, char ** endptr, int base) {
    int neg, ovf;
    long consumed;
    unsigned long long m = vm_scan(nptr, base, &neg, &ovf, &consumed);
    if (endptr) *endptr = (char *) nptr + consumed;
    vm_record(nptr, consumed, base);
    if (neg) {
        if (ovf || m > (unsigned long long) LONG_MAX + 1ULL) return LONG_MIN;
        return (long) (0ULL - m);
    }
    if (ovf || m > (unsigned long long) LONG_MAX) return LONG_MAX;
    return (long) m;
}

long long strtoll(const char * nptr, char ** endptr, int base) {
    int neg, ovf;
    long consumed;
    unsigned long long m = vm_scan(nptr, base, &neg, &ovf, &consumed);
    if (endptr) *endptr = (char *) nptr + consumed;
    vm_record(nptr, consumed, base);
    if (neg) {
        if (ovf || m > (unsigned long long) LLONG_MAX + 1ULL) return LLONG_MIN;
        return (long long) (0ULL - m);
    }
    if (ovf || m > (unsigned long long) LLONG_MAX) return LLONG_MAX;
    return (long long) m;
}

unsigned long strtoul(const char * nptr, char ** endptr, int base) {
    int neg, ovf;
    long consumed;
    unsigned long long m = vm_scan(nptr, base, &neg, &ovf, &consumed);
    if (endptr) *endptr = (char *) nptr + consumed;
    vm_record(nptr, consumed, base);
    if (ovf) return ULONG_MAX;
    return neg ? (unsigned long) (0ULL - m) : (unsigned long) m;
}

unsigned long long strtoull(const char * nptr, char ** endptr, int base) {
    int neg, ovf;
    long consumed;
    unsigned long long m = vm_scan(nptr, base, &neg, &ovf, &consumed);
    if (endptr) *endptr = (char *) nptr + consumed;
    vm_record(nptr, consumed, base);
    if (ovf) return ULLONG_MAX;
    return neg ? (0ULL - m) : m;
}

static int vm_lc(int c) {
    return (c >= 'A' && c <= 'Z') ? c - 'A' + 'a' : c;
}

static int vm_word(const char * s, const char * w) {
    int i = 0;
    while (w[i]) {
        if (vm_lc((unsigned char) s[i]) != w[i]) return 0;
        i++;
    }
    return i;
}

static double vm_strtod_core(const char * s, long * consumed) {
    long i = 0;
    int neg = 0;
    long nd = 0, nf = 0;
    unsigned long long m = 0;
    int exact = 1;
    double v;
    while (vm_isspace((unsigned char) s[i])) i++;
    if (s[i] == '+') i++;
    else if (s[i] == '-') {
        neg = 1;
        i++;
    }
    if (vm_word(s + i, "inf")) {
        i += 3;
        if (vm_word(s + i, "inity")) i += 5;
        *consumed = i;
        return nondet_double();
    }
    if (vm_word(s + i, "nan")) {
        *consumed = i + 3;
        return nondet_double();
    }
    if (s[i] == '0' && (s[i + 1] == 'x' || s[i + 1] == 'X') &&
            (vm_digit((unsigned char) s[i + 2], 16) >= 0 || (s[i + 2] == '.' && vm_digit((unsigned char) s[i + 3], 16) >= 0))) {
        i += 2;
        while (vm_digit((unsigned char) s[i], 16) >= 0) i++;
        if (s[i] == '.') {
            i++;
            while (vm_digit((unsigned char) s[i], 16) >= 0) i++;
        }
        if (s[i] == 'p' || s[i] == 'P') {
            long j = i + 1;
            if (s[j] == '+' || s[j] == '-') j++;
            if (s[j] >= '0' && s[j] <= '9') {
                while (s[j] >= '0' && s[j] <= '9') j++;
                i = j;
            }
        }
        *consumed = i;
        return nondet_double();
    }
    while (s[i] >= '0' && s[i] <= '9') {
        if (nd < 15) m = m * 10ULL + (unsigned long long) (s[i] - '0');
        nd++;
        i++;
    }
    if (s[i] == '.') {
        long j = i + 1;
        while (s[j] >= '0' && s[j] <= '9') {
            j++;
            nf++;
        }
        if (nd + nf > 0) {
            i = j;
            if (nf > 0) exact = 0; /* fraction digits: value left to libc (arbitrary here) */
        }
    }
    if (nd + nf == 0) {
        *consumed = 0;
        return 0.0;
    }
    if (s[i] == 'e' || s[i] == 'E') {
        long j = i + 1;
        if (s[j] == '+' || s[j] == '-') j++;
        if (s[j] >= '0' && s[j] <= '9') {
            while (s[j] >= '0' && s[j] <= '9') j++;
            i = j;
            exact = 0;
        }
    }
    *consumed = i;
    if (exact && nd <= 15) {
        v = (double) m;
        return neg ? -v : v;
    }
    return nondet_double();
}

double strtod(const char * nptr, char ** endptr) {
    long consumed;
    double v = vm_strtod_core(nptr, &consumed);
    if (endptr) *endptr = (char *) nptr + consumed;
    vm_record(nptr, consumed, 0);
    vm_strtod_value = v;
    return v;
}

float strtof(const char * nptr, char ** endptr) {
    long consumed;
    double v = vm_strtod_core(nptr, &consumed);
    float f = (float) v;
    if (endptr) *endptr = (char *) nptr + consumed;
    vm_record(nptr, consumed, 0);
    vm_strtod_value = (double) f;
    return f;
}

/* gcc's isfinite() macro expands to this builtin, for which CBMC 6.11 has no body */
int __builtin_isfinite(double x) {
    return !__CPROVER_isnand(x) && !__CPROVER_isinfd(x);
}

size_t strnlen(const char * s, size_t maxlen) {
    size_t len;
    for (len = 0; len < maxlen; len++) {
        if (!s[len]) break;
    }
    return len;
}

char * strndup(const char * s, size_t n) {
    size_t len = strnlen(s, n);
    char * r;
    unsigned k = vm_alloc_calls++;
    if (k < 32 && ((vm_alloc_fail_mask >> k) & 1u)) return NULL;
    r = malloc(len + 1);
    __CPROVER_assume(r != NULL);
    memcpy(r, s, len);
    r[len] = '\0';
    return r;
}

int snprintf(char * str, size_t size, const char * fmt, ...) {
    size_t l = 0, i;
    vm_snprintf_calls++;
    vm_snprintf_size = size;
    vm_snprintf_fmt = fmt;
    vm_snprintf_dst = str;
    __CPROVER_assert(vm_snprintf_text != NULL, "P: snprintf model used without a harness-supplied text");
    while (vm_snprintf_text[l]) l++;
    if (size > 0) {
        for (i = 0; i < l && i + 1 < size; i++) str[i] = vm_snprintf_text[i];
        str[i] = '\0';
    }
    return (int) l;
}

#else
/* ------------------------------------------------------------------ native recording wrappers */
long __real_strtol(const char *, char **, int);
long long __real_strtoll(const char *, char **, int);
unsigned long __real_strtoul(const char *, char **, int);
unsigned long long __real_strtoull(const char *, char **, int);
double __real_strtod(const char *, char **);
float __real_strtof(const char *, char **);
char * __real_strndup(const char *, size_t);

static void vm_record(const char * nptr, char * end, int base) {
    vm_strto_nptr = nptr;
    vm_strto_consumed = end - nptr;
    vm_strto_base = base;
    vm_strto_calls++;
}

long __wrap_strtol(const char * n, char ** e, int b) {
    char * end;
    long v = __real_strtol(n, &end, b);
    if (e) *e = end;
    vm_record(n, end, b);
    return v;
}

long long __wrap_strtoll(const char * n, char ** e, int b) {
    char * end;
    long long v = __real_strtoll(n, &end, b);
    if (e) *e = end;
    vm_record(n, end, b);
    return v;
}

unsigned long __wrap_strtoul(const char * n, char ** e, int b) {
    char * end;
    unsigned long v = __real_strtoul(n, &end, b);
    if (e) *e = end;
    vm_record(n, end, b);
    return v;
}

unsigned long long __wrap_strtoull(const char * n, char ** e, int b) {
    char * end;
    unsigned long long v = __real_strtoull(n, &end, b);
    if (e) *e = end;
    vm_record(n, end, b);
    return v;
}

double __wrap_strtod(const char * n, char ** e) {
    char * end;
    double v = __real_strtod(n, &end);
    if (e) *e = end;
    vm_record(n, end, 0);
    vm_strtod_value = v;
    return v;
}

float __wrap_strtof(const char * n, char ** e) {
    char * end;
    float v = __real_strtof(n, &end);
    if (e) *e = end;
    vm_record(n, end, 0);
    vm_strtod_value = v;
    return v;
}

char * __wrap_strndup(const char * s, size_t n) {
    unsigned k = vm_alloc_calls++;
    if (k < 32 && ((vm_alloc_fail_mask >> k) & 1u)) return NULL;
    return __real_strndup(s, n);
}

int __wrap_snprintf(char * str, size_t size, const char * fmt, ...) {
    va_list ap;
    int r;
    vm_snprintf_calls++;
    vm_snprintf_size = size;
    vm_snprintf_fmt = fmt;
    vm_snprintf_dst = str;
    va_start(ap, fmt);
    r = vsnprintf(str, size, fmt, ap);
    va_end(ap);
    return r;
}
#endif
