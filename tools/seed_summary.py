#!/usr/bin/env python3
"""Writes seeded/SUMMARY.md from the meta.json files produced by tools/seed_eval.py."""
import glob
import json
import os

VERIF = os.path.dirname(os.path.dirname(os.path.abspath(__file__)))
rows = []
for m in sorted(glob.glob(os.path.join(VERIF, "seeded", "*", "meta.json"))):
    d = json.load(open(m))
    name = os.path.basename(os.path.dirname(m))
    if "check_exit" not in d:
        continue
    what = d.get("needs", "")
    detail = (d.get("check_detail") or [""])[0]
    caught_by = ""
    if detail:
        caught_by = detail.split(" cbmc: ")[0].replace("case=", "") + ": " + detail.split(" cbmc: ")[1].split(" [")[0][:110] if " cbmc: " in detail else detail[:120]
    rows.append((name, d.get("property"), d.get("tests_failed"), d.get("demo_unchanged_exit"), d.get("demo_changed_exit"),
                 "yes" if d.get("detected") else "NO", caught_by, what))
with open(os.path.join(VERIF, "seeded", "SUMMARY.md"), "w") as fh:
    fh.write("# Seeded changes and which check catches them\n\n")
    fh.write("Each change was produced by an independent sub-agent that saw only the property text and its own scratch worktree. "
             "Confirmed here: the 71 tests still pass with the change, the agent's demo exits 0 without it and non-zero with it. "
             "`detected` = the property's quick check, run against a scratch worktree of /repo HEAD with the patch applied "
             "(`tools/seed_eval.py`), exits 1 with a VIOLATION line whose counterexample also fails natively.\n\n")
    fh.write("| seeded | property | tests failed | demo (orig/changed) | detected | first reporting case: assertion | what it needs to manifest |\n|---|---|---|---|---|---|---|\n")
    for r in rows:
        fh.write("| %s | %s | %s | %s/%s | %s | %s | %s |\n" % (r[0], r[1], r[2], r[3], r[4], r[5], r[6].replace("|", "/"), r[7].replace("|", "/")))
print("rows:", len(rows))
