#!/usr/bin/env python3
"""Evaluate a seeded change: confirm it (tests pass, demo distinguishes the trees) in a scratch worktree of /repo HEAD and
run the property's quick check against that worktree (VERIF_REPO).  usage: seed_eval.py <seeded-dir> [--case substr ...]"""
import json
import os
import re
import shutil
import subprocess
import sys

VERIF = os.path.dirname(os.path.dirname(os.path.abspath(__file__)))


def sh(cmd, cwd=None, timeout=3600, env=None):
    r = subprocess.run(cmd, shell=True, cwd=cwd, stdout=subprocess.PIPE, stderr=subprocess.STDOUT, timeout=timeout, env=env)
    return r.returncode, r.stdout.decode("utf-8", "replace")


def main():
    d = os.path.abspath(sys.argv[1])
    extra = " ".join(sys.argv[2:])
    name = os.path.basename(d)
    prop = name.split("-")[0]
    meta_p = os.path.join(d, "meta.json")
    meta = json.load(open(meta_p)) if os.path.exists(meta_p) else {}
    cfg = meta.get("demo_cflags", "")
    wt = "/tmp/seed-eval-" + name
    sh("git -C /repo worktree remove --force %s" % wt)
    shutil.rmtree(wt, ignore_errors=True)
    rc, out = sh("git -C /repo worktree add -q --detach %s HEAD" % wt)
    res = dict(property=prop, seeded=name)
    try:
        # demo on the unchanged tree
        build = "gcc -w %s -I%s/libscpi/inc -I%s/libscpi/src %s/demo.c %s/libscpi/src/*.c -lm -o %s/demo.exe" % (cfg, wt, wt, d, wt, wt)
        rc, out = sh(build)
        rc0, out0 = sh("%s/demo.exe" % wt, timeout=120)
        res["demo_unchanged_exit"] = rc0
        rc, out = sh("git -C %s apply %s/patch.diff" % (wt, d))
        res["patch_applies"] = rc == 0
        if rc != 0:
            res["error"] = out[-500:]
            print(json.dumps(res, indent=1))
            return
        rc, out = sh("make -C %s/libscpi clean >/dev/null 2>&1; make -C %s/libscpi test" % (wt, wt))
        tests = re.findall(r"tests\s+(\d+)\s+(\d+)\s+(\d+)\s+(\d+)", out)
        res["tests_total"] = sum(int(t[0]) for t in tests)
        res["tests_failed"] = sum(int(t[3]) for t in tests)
        sh("make -C %s/libscpi clean >/dev/null 2>&1" % wt)
        rc, out = sh(build)
        rc1, out1 = sh("%s/demo.exe" % wt, timeout=120)
        res["demo_changed_exit"] = rc1
        res["demo_changed_output"] = out1[-400:]
        env = dict(os.environ)
        env["VERIF_REPO"] = wt
        cmd = "python3 %s/run.py %s --tier quick %s" % (VERIF, prop, extra)
        rc, out = sh(cmd, cwd=VERIF, env=env, timeout=5400)
        res["check_cmd"] = "VERIF_REPO=<worktree with patch> " + cmd
        res["check_exit"] = rc
        res["check_violation_lines"] = [l for l in out.splitlines() if l.startswith("VIOLATION")][:6]
        res["check_detail"] = [l.strip()[:300] for l in out.splitlines() if l.strip().startswith("case=")][:6]
        res["check_inconclusive"] = [l[:300] for l in out.splitlines() if l.startswith("INCONCLUSIVE")][:6]
        res["detected"] = rc == 1 and len(res["check_violation_lines"]) > 0
    finally:
        sh("git -C /repo worktree remove --force %s" % wt)
        shutil.rmtree(wt, ignore_errors=True)
    meta.update(res)
    json.dump(meta, open(meta_p, "w"), indent=1)
    print(json.dumps(res, indent=1))


if __name__ == "__main__":
    main()
