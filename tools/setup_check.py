#!/usr/bin/env python3
"""setup: nothing to build (harnesses are compiled per run); verify the tools the checks need are present."""
import shutil
import sys
missing = [t for t in ("cbmc", "goto-cc", "goto-instrument", "gcc", "python3") if shutil.which(t) is None]
if missing:
    print("missing tools:", missing)
    sys.exit(1)
print("setup ok")
