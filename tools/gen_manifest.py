#!/usr/bin/env python3
"""Regenerates /verif/MANIFEST.json from the per-property table below (single source of truth)."""
import json
import os
import sys

VERIF = os.path.dirname(os.path.dirname(os.path.abspath(__file__)))
sys.path.insert(0, VERIF)

TB = ("Trusted: CBMC 6.11 + SAT back end, goto-cc front end (x86-64 data model), CBMC's ctype/string/malloc models, "
      "own libc contract models (/verif/models/libc.c) where named, the harness oracle. Claim is bounded: see the "
      "bounds/outside_bounds keys of the evidence file.")

CLAIMED = {
    "C11": dict(
        text="Inductive-step bounded model checking: from EVERY register file (ten arbitrary 16-bit registers) and queue fill "
             "level satisfying the coherence invariant, every operation family (register writes, error push/pop/clear, *CLS, "
             "*ESR?, *ESE, *SRE, STAT:..:EVEN?/ENAB, STAT:PRES, *OPC, SYST:ERR?) with symbolic arguments re-establishes the "
             "invariant - so it holds along histories of any length, not only the ones a test strings together.",
        tech="CBMC bounded model checking of real ieee488.c/error.c/fifo.c/minimal.c, one inductive step from an arbitrary invariant-satisfying state",
        ref="3 C11"),
    "C12": dict(
        text="Same inductive harness with the transition relation as assertion: ESR' == ESR | class(code) for all 65536 codes, "
             "condition 0->1 latch, event bits cleared only by the listed operations, SRQ callback contract checked at call time "
             "and required on every MSS 0->1 step.",
        tech="CBMC bounded model checking, symbolic error code / register values, one step from arbitrary coherent state",
        ref="3 C12"),
    "C01": dict(
        text="Layered bounded model checking with CBMC's memory-safety, pointer, overflow, shift and unwinding (termination) obligations on "
             "every layer of the library, each from an ARBITRARY pre-state: all token recognisers on every byte string up to the bound with the "
             "logical end of input at the end of the object; program-data/unit detection; every parameter-decoding and expression API applied "
             "twice to arbitrary NUL-terminated data; SCPI_Input's buffer logic incl. overrun (-363), zero-length calls and exact-size buffers of "
             "2..7 bytes; every buffer-filling API with exact-size caller buffers of symbolic length; block/array emitters; queue and static-heap "
             "steps; in the default, no-info, static-heap and built-in-dtostre configurations. Solver-only pointer reports inside /repo count as violations here.",
        tech="CBMC bounded model checking (bounds/pointer/overflow/shift/unwinding obligations) layer by layer from arbitrary pre-states",
        ref="3 C01"),
    "C02": dict(
        text="Real SCPI_Parse (unit loop, in-place compound-header composition, first-match lookup, -113 with unit text, SCPI_CmdTag/SCPI_IsCmd) "
             "on every well-formed message up to the bound over {A B C : ; ? * LF} against an 8-entry table with overlapping patterns, an optional "
             "keyword, a query and a common command; the oracle recomputes effective headers from the text by the stated rule and the expected "
             "first-matching entry. Pattern acceptance inside the run is the reference relation of the table (the real matcher is C03's subject). "
             "Second family: concrete 2-, 3- and 4-unit message texts with a SYMBOLIC acceptance relation of the command table (any 8-entry table at once).",
        tech="CBMC bounded model checking of real SCPI_Parse dispatch on symbolic messages vs text-level compound-header oracle",
        ref="3 C02"),
    "C04": dict(
        text="Real typed parameter readers on symbolic literals: for every 488.2 decimal literal up to the bound the text handed to libc "
             "strtod/strtof (exact consumed-prefix model) must be consumed to the end of the literal and the value returned unchanged; every "
             "[sign]digits and #H/#Q/#B literal that fits the type decodes exactly (Horner oracle) through the four integer readers and as "
             "double/float; every row of the real unit table in every letter case with 0..2 blanks gives its unit and value*multiplier; every "
             "special mnemonic in short/long form gives its tag.",
        tech="CBMC bounded model checking of real Param* readers with exact strto* models, symbolic literals and symbolic unit-table index",
        ref="3 C04"),
    "C05": dict(
        text="Reader level: every data list of up to 4/5 symbolic bytes (16-symbol alphabet with every data type and malformed fragments), "
             "well formed per the reference parser, read by two typed readers (pairs from Int32/Double/Bool/Choice/CopyText/Number, mandatory "
             "flags symbolic): success with the item as written or exactly -104/-138/-131/-224/-109, absent optional silent, never FALSE "
             "without an error, -108 for leftovers. Message level: concrete data templates (well formed and malformed) through real SCPI_Parse "
             "with symbolic handler behaviour: malformed data never reach the handler and raise -1xx, -200 for silent failure, -108, -109, "
             "result == no error; SCPI_Input's return value is checked in the input-buffer harness.",
        tech="CBMC bounded model checking: symbolic parameter lists at reader level + concrete templates through real SCPI_Parse with symbolic handlers",
        ref="3 C05"),
    "C06": dict(
        text="Real SCPI_Parse on every query/command template of 1..3 (quick) / 1..4 and selected 5-6 (thorough) units with SYMBOLIC handler "
             "behaviour (0..3 items from six result kinds incl. streamed blocks, error pushed at any point, OK/ERR) and ARBITRARY carried-over "
             "response state; the exact output bytes, the single terminator and the single flush are compared with the framing rule.",
        tech="CBMC bounded model checking of real SCPI_Parse response framing with symbolic handler behaviour on concrete unit templates",
        ref="3 C06"),
    "C07": dict(
        text="Real SCPI_Result* -> recording callback -> real lexer and SCPI_Param* round trips: every 32/64-bit value in bases 2/8/16 (digit "
             "generator replaced by its C14 contract: any canonical digit string of the magnitude), decimal with the real digit generator on a "
             "magnitude slice, booleans, every 7-bit text up to 5/6 characters incl. both quotes, every block up to 12 bytes, ASCII int32 arrays. "
             "Floats/doubles are not claimed (see C16).",
        tech="CBMC bounded model checking of format->lex->decode round trips, contract stub for digit generation",
        ref="3 C07"),
    "C08": dict(
        text="Two solver-checked parts. (1) Stability lemma on the REAL unit detector with all real lexers: for every byte string up to the "
             "bound and every shorter prefix, a unit decision that did not depend on where the available data ended (terminator found, or an "
             "offending character before the end) is identical on the longer input (CR|LF split tolerated). (2) Functional specification of the "
             "REAL SCPI_Input with an abstract detector that satisfies the lemma by construction: for every stream over all byte values cut into "
             "1..3 chunks at symbolic positions, the executed messages are exactly the LF-terminated segments, the remainder is the tail, a "
             "zero-length call executes the remainder; overrun resets, queues -363 and returns FALSE. By induction over units and chunks the two "
             "give chunking invariance. The direct two-context differential did not finish within 900 s even for 3-byte streams.",
        tech="CBMC bounded model checking: stability lemma on real detector + functional spec of real SCPI_Input with abstract detector",
        ref="3 C08"),
    "C09": dict(
        text="Differential check on two contexts: B after message A (7 concrete A templates: complete, failing midway, unfinished block, "
             "incomplete string, undefined header, common command) and after ARBITRARY values in every carried-over parser field, versus B on a "
             "fresh context, with symbolic handler behaviour: same handler calls, effective headers, parameters, output bytes, new errors, result. "
             "Removal of consumed bytes from the input buffer: functional specification of the real SCPI_Input buffer logic (shared with C08).",
        tech="CBMC differential bounded model checking of real SCPI_Parse on two contexts with havocked carried-over parser state",
        ref="3 C09"),
    "C19": dict(
        text="Real SCPI_ExprNumericListEntry(/Int) and SCPI_ExprChannelListEntry on every expression body up to the bound over a 16-symbol "
             "alphabet, symbolic entry index, exact-size value arrays of capacity 0..2/4: OK only if the entry and all before it are well formed "
             "(reference list parser), exact entry/range/dimensions for well-formed lists and NO_MORE beyond, ERROR with -170 once a malformed "
             "channel list's bad part is reached, nothing stored beyond the capacity. Value conversion is stubbed to report WHICH literal was converted.",
        tech="CBMC bounded model checking of real expression.c list walkers vs reference list parser",
        ref="3 C19"),
    "C03": dict(
        text="For each concrete pattern (every pattern shipped in /repo tests and examples, harvested at run time, plus a generated "
             "family with every optional/numeric placement) the real matchCommand runs on a SYMBOLIC header (all strings up to the "
             "bound over the pattern's letters in both cases, a foreign letter, digits, _ : ? *) in both calling modes, against a "
             "reference matcher that works on a keyword table (dynamic programme over keyword x mnemonic) - acceptance must agree "
             "and numeric suffixes must come back in keyword order with the default for omitted/skipped keywords.",
        tech="CBMC bounded model checking of real utils.c matcher vs keyword-table reference matcher, symbolic header per concrete pattern",
        ref="3 C03"),
    "C13": dict(
        text="Every recogniser of lexer.c is run on every byte string up to the bound (all 256 byte values, every start offset, "
             "arbitrary garbage in the token out-parameter, logical end of input = end of the object) and must agree exactly - return "
             "value, type, extent, cursor - with an index-based reference recogniser written from IEEE 488.2 section 7; "
             "scpiParser_parseProgramData and scpiParser_detectProgramMessageUnit are checked the same way against the reference "
             "data-item and unit grammar (well-formedness iff header [blanks data{,data}] terminator|end, extents, parameter count, termination).",
        tech="CBMC bounded model checking of real lexer.c/parser.c recognisers against reference recognisers over all bounded inputs",
        ref="3 C13"),
    "C15": dict(
        text="Each buffer-filling API gets a caller buffer of SYMBOLIC length 0..24/40 whose end is the end of the underlying object, "
             "so CBMC's bounds checks are the canary for every byte behind it; NUL-termination and returned length are asserted. "
             "Values, unit names, special names and quoted texts are symbolic; libc snprintf is a contract model printing table text; "
             "the built-in formatter is checked with its digit generator replaced by an arbitrary-digits stub. Integer to string: "
             "truncation relation for every buffer length 0..70 (C14's harness) on decimal slices, sign-boundary windows and all base-16 values.",
        tech="CBMC bounded model checking with exact-size symbolic-length caller buffers (bounds checks as canaries)",
        ref="3 C15"),
    "C17": dict(
        text="The real block/array result functions write into a recording callback: the block header for every length of a symbolic "
             "slice (plus every power of ten and 10^9-1) must be '#', digit count, digits decoding back to the length; block-data "
             "accounting is checked from an ARBITRARY remaining-length/item-count state (refusal with -310 iff too long, counted as an "
             "item exactly on completion, bytes unchanged); every SCPI_ResultArray<T> (10 element types, 0..3 elements of any bit "
             "pattern, NORMAL and SWAPPED) must emit big-/little-endian images computed by shifts, under both a little-endian and a "
             "big-endian target model; streamed header/data splits at every cut.",
        tech="CBMC bounded model checking of real parser.c block/array emitters, recording write callback, both --little-endian and --big-endian target models",
        ref="3 C17"),
    "C18": dict(
        text="Real SCPI_ResultError with a symbolic description (through a stubbed translation function; the real table is checked "
             "separately for all 65536 codes) and a symbolic device text - absent, or any string over {y ; \"} up to the bound, in the "
             "malloc configuration and wrapped at every offset of the static heap. The output is checked on the fly by a 488.2 string "
             "reader in the write callback: <code>,\"...\" with every inner quote doubled, un-escaped content a prefix of "
             "description[;text], at most LIMIT characters, cut as late as LIMIT allows. LIMIT is checked scaled to 6/8/12 (quick) and up to 20 "
             "(thorough) by overriding the macro at compile time (same code); the real 255 needs more than 12 GB and is not claimed.",
        tech="CBMC bounded model checking of real SCPI_ResultError with streaming 488.2-string oracle in the write callback",
        ref="3 C18"),
    "C20": dict(
        text="Refinement step on the circular string heap (static-heap build): from EVERY heap state satisfying the representation "
             "invariant (0..3 live non-empty strings at any rotation incl. wrapped, free bytes zero, exact count, cursor behind the "
             "newest) each real operation - strndup with symbolic text/limit, release of the oldest, release of the newest with "
             "rollback - must keep every surviving string readable intact through get_parts, store the new text exactly or refuse it, "
             "keep the free-byte count exact, re-establish the invariant (cursor 0 when empty) and never touch a byte outside the "
             "exact-size heap object. A second step harness runs the real error.c operations (push incl. queue overflow with rollback, "
             "SYST:ERR?, clear) from every consistent (queue, heap) state: every queued error reports exactly its text or none.",
        tech="CBMC bounded model checking, one refinement step from an arbitrary valid heap state, heap sizes 2..12",
        ref="3 C20"),
    "C10": dict(
        text="Refinement-step bounded model checking: from EVERY representation state of a queue of capacity 1..4 (any fill level, read index, codes, each live slot with or without its own heap text, stale pointers in dead slots) each real operation (push with symbolic code/text/explicit length and a possible strndup failure, pop, clear, count, SYST:ERR?) must produce exactly the abstract FIFO result - same codes, the very same text pointers, -350 replacing the newest on overflow - and re-establish the representation invariant; ownership is decided by CBMC memory-leak, double-free and deallocated-dereference checks on the real free() calls. Histories of any length follow by induction; SCPI_Init is the base case.",
        tech="CBMC bounded model checking, one refinement step from an arbitrary representation state, memory-leak/double-free checks, allocation-fault injection",
        ref="3 C10"),
    "C14": dict(
        text="The real formatters run on a symbolic value; the oracle decodes the produced digits back (Horner) and checks "
             "canonical form, and a second call with a symbolic buffer length 0..70 must produce exactly the prefix, NUL iff "
             "room, and leave every byte at/after len untouched. Bases 2/8/16: all values of both widths; base 10: bounded magnitude.",
        tech="CBMC bounded model checking (monolithic and path-wise --paths) of real utils.c with decode-back oracle",
        ref="3 C14"),
}

NOT_YET = {}


def main():
    props = [json.loads(l) for l in open(os.path.join(VERIF, "properties.jsonl"))]
    na_fixed = {
        "C16": "Float text precision: printf build delegates digit generation to libc snprintf (not repository code, no encodable "
               "body); the USE_CUSTOM_DTOSTRE build runs up to ~300 iterations of double division/modf - bit-precise FP chains "
               "of that length are beyond every SAT/SMT back end present (see DESIGN.md section 6). Buffer safety of the same "
               "code is covered under C15.",
    }
    checks = []
    na = []
    for p in props:
        pid = p["id"]
        if pid in CLAIMED and os.path.exists(os.path.join(VERIF, "props", pid.lower() + ".py")):
            c = CLAIMED[pid]
            checks.append(dict(
                property_id=pid,
                quick_cmd="python3 run.py %s --tier quick" % pid,
                thorough_cmd="python3 run.py %s --tier thorough" % pid,
                evidence_file="evidence/%s.json" % pid,
                replay_cmd_template="python3 run.py %s --replay {path}" % pid,
                engine="cbmc",
                level_claimed=dict(category="model_checking", text=c["text"], design_ref="DESIGN.md section " + c["ref"]),
                level_note=TB,
                technique=c["tech"],
            ))
        elif pid in na_fixed:
            na.append(dict(property_id=pid, reason=na_fixed[pid]))
        else:
            na.append(dict(property_id=pid, reason=NOT_YET.get(pid, "check under construction in this session - not claimed until its harness passes on the unchanged tree")))
    m = dict(
        version=1,
        setup_cmd="python3 tools/setup_check.py",
        hooks=dict(guard="SCPI_PARSER_VERIF",
                   enable="checks compile /repo/libscpi/src/*.c with goto-cc/gcc -DSCPI_PARSER_VERIF=1 (no hook code is needed by the CBMC harnesses; the guard is reserved)",
                   baseline_off_cmd="make -C /repo/libscpi clean >/dev/null 2>&1; make -C /repo/libscpi test",
                   source_commits=[], add_only=True),
        engines=[dict(name="cbmc", path="/verif/run.py", serves_properties=[c["property_id"] for c in checks],
                      kind_free_text="bounded symbolic model checking (CBMC 6.11, SAT) of the real C translation units, native ASan/UBSan replay of counterexamples")],
        checks=checks,
        notes="Every check rebuilds the needed libscpi translation units from /repo's working tree with goto-cc on each run. "
              "Exit 0 = all obligations discharged within the stated bounds; exit 1 + VIOLATION line = counterexample that "
              "reproduced natively; exit 2 + INCONCLUSIVE lines = timeout / vacuity / unreproduced counterexample (never reported as success).",
        not_applicable=na,
    )
    with open(os.path.join(VERIF, "MANIFEST.json"), "w") as fh:
        json.dump(m, fh, indent=1)
    print("claimed:", [c["property_id"] for c in checks])


if __name__ == "__main__":
    main()
