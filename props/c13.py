from vlib.core import Case

H = "harness/c13_lexer.c"
TOKS = {1: "scpiLex_WhiteSpace", 2: "scpiLex_ProgramHeader", 3: "scpiLex_CharacterProgramData",
        4: "scpiLex_DecimalNumericProgramData", 5: "scpiLex_SuffixProgramData", 6: "scpiLex_NondecimalNumericData",
        7: "scpiLex_StringProgramData", 8: "scpiLex_ArbitraryBlockProgramData", 9: "scpiLex_ProgramExpression",
        10: "scpiLex_Comma/Semicolon/Colon/SpecificCharacter/NewLine"}


def leaf(tok, n, timeout=600, solver=None):
    return Case("tok%02d-n%d" % (tok, n), H, ["lexer.c"], defs=["-DTOK=%d" % tok, "-DN=%d" % n], unwind=n + 3,
                timeout=timeout, solver=solver, models=False, functions=[TOKS[tok]],
                bounds=dict(recogniser=TOKS[tok], input="every byte string of length 0..%d over all 256 byte values" % n,
                            start="every offset 0..length inside the buffer", token_out="arbitrary initial content"))


def leaf_cases(tier):
    n = 8 if tier == "quick" else 12
    return [leaf(t, n, timeout=600 if tier == "quick" else 3000) for t in sorted(TOKS)]


HU = "harness/c13_unit.c"


def unit(mode, n, alphabet, timeout=900, solver=None):
    fn = {1: "scpiParser_parseProgramData", 2: "scpiParser_detectProgramMessageUnit"}[mode]
    return Case("unit-m%d-n%d-a%d" % (mode, n, alphabet), HU, ["lexer.c", "parser.c", "utils.c", "error.c", "fifo.c", "ieee488.c"],
                defs=["-DMODE=%d" % mode, "-DN=%d" % n, "-DALPHABET=%d" % alphabet], unwind=n + 3,
                unwindset={"scpiParser_parseAllProgramData.0": n // 2 + 2}, timeout=timeout,
                solver=solver, models=True, mem_est=(12 if n >= 6 else 4),
                functions=[fn, "scpiParser_parseAllProgramData"] + [TOKS[t] for t in sorted(TOKS)],
                bounds=dict(function=fn, input="every string of length 0..%d over %s" % (
                    n, "all 256 byte values" if not alphabet else "a 32-symbol alphabet with one representative of every "
                    "character class the recognisers distinguish (A b E H Q z 0 1 2 9 SP TAB , ; : * ? # \" ' CR LF ( ) . - + / _ ! NUL 0x80)")))


def cases(tier):
    cs = leaf_cases(tier)
    if tier == "quick":
        cs += [unit(1, 5, 0), unit(1, 6, 1), unit(2, 4, 1)]
    else:
        cs += [unit(1, 7, 0, 3000), unit(1, 9, 1, 6000), unit(2, 5, 0, 6000), unit(2, 6, 1, 9000)]
    return cs


META = dict(
    bounds=dict(input_len="recognisers: 0..8 quick, 0..12 thorough, all byte values, every start offset; program data 0..5/6 quick, 0..7/9 thorough; units 0..4 quick, 0..6/7 thorough"),
    outside=["inputs longer than the bound", "indefinite-length blocks (#0...), nested expressions, strict suffix syntax "
             "(documented leniencies)", "IEEE 488.2 white space other than blank and tab (the source documents WS as SPACE|TAB)",
             "a lone CR is accepted as terminator by the implementation; the oracle tolerates it (DESIGN.md section 4)"],
    assumptions=["lex_state: buffer <= pos <= buffer+len"],
    explanation="bounded model checking of each real recogniser against an index-based reference recogniser",
)
