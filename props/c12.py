from props import c11


def cases(tier):
    return c11.gen(12, tier)


META = dict(c11.META)
