from vlib.core import Case

H = "harness/c14_inttostr.c"
FUNCS = ["UInt32ToStrBaseSign", "UInt64ToStrBaseSign", "SCPI_Int32ToStr", "SCPI_UInt32ToStrBase", "SCPI_Int64ToStr",
         "SCPI_UInt64ToStrBase"]


def mk(width, base, api=0, lo=None, hi=None, timeout=300, solver=None, tag="", mode=3, paths=False):
    defs = ["-DWIDTH=%d" % width, "-DBASE=%d" % base, "-DAPI=%d" % api, "-DMODE=%d" % mode]
    b = dict(width=width, base=base, api="public wrappers" if api else "U*ToStrBaseSign", values="all 2^%d" % width,
             checks={1: "canonical form + decode-back (full buffer)", 2: "truncation relation for every buffer length 0..70",
                     3: "canonical form + decode-back + truncation relation for every buffer length 0..70"}[mode],
             engine="path-wise symbolic execution (--paths fifo), one SAT query per path" if paths else "monolithic BMC")
    name = "w%d-b%d-api%d-m%d%s" % (width, base, api, mode, tag)
    if hi is not None:
        defs += ["-DMAG_LO=%dULL" % lo, "-DMAG_HI=%dULL" % hi]
        b["values"] = "magnitude in [%d, %d], negative and non-negative, signed and unsigned" % (lo, hi)
    flags = ["--paths", "fifo"] if paths else []
    return Case(name, H, ["utils.c"], defs=defs, unwind=75, timeout=timeout, solver=solver, bounds=b,
                functions=FUNCS, models=False, flags=flags)


def cases(tier):
    cs = []
    q = tier == "quick"
    # 32 bit, bases 2/8/16: every value, every buffer length
    for b in (2, 8, 16):
        cs.append(mk(32, b, 0, timeout=900))
    cs.append(mk(32, 16, 1, timeout=900))
    # 64 bit: canonical form for every value (path-wise: the divisor is a constant on each path)
    for b in (2, 8, 16):
        cs.append(mk(64, b, 0, mode=1, paths=True, timeout=900))
    cs.append(mk(64, 2, 1, mode=1, paths=True, timeout=900))
    # 64 bit truncation relation (monolithic): base 16 every value; bases 2 and 8 short values (stated slice) -
    # path-wise exploration of the truncation relation did not finish in 900 s (one path per buffer length x digit count)
    cs.append(mk(64, 16, 0, timeout=1800))
    for b in (2, 8):
        cs.append(mk(64, b, 0, 0, 255, timeout=1800, tag="-small"))
    if not q:
        cs.append(mk(64, 8, 0, timeout=3000))
    # base 10 and "any other base means 10"
    hi = 9999 if q else 999999
    for w in (32, 64):
        cs.append(mk(w, 10, 0, 0, hi, timeout=1800, tag="-lo"))
        cs.append(mk(w, 10, 1, 0, 999 if q else 9999, timeout=1800, tag="-lo"))
        cs.append(mk(w, 7, 0, 0, 999 if q else 9999, timeout=1800, tag="-lo"))
        cs.append(mk(w, 0, 0, 0, 99 if q else 999, timeout=1800, tag="-lo"))
    return cs


META = dict(
    bounds=dict(buffer_len="0..70", bases="2, 8, 16: all values of both widths for canonical form; truncation: all 32-bit "
                "values, 64-bit full-length and short slices; base 10 and 'other': magnitude slice per case"),
    outside=["base-10 magnitudes above the per-case slice (the digit loop's repeated division defeats every back end "
             "present beyond ~10^6, see DESIGN.md C14)",
             "64-bit truncation relation in bases 2 and 8 for magnitudes above 255 (canonical form is proved for all of them; base 16 truncation is proved for all values)",
             "buffer lengths above 70 (output is at most 65 characters; no code path depends on larger lengths)"],
    assumptions=["len <= 70", "the truncated call's destination is a 74-byte object whose bytes at and beyond len hold an "
                 "arbitrary (symbolic) fill value that must survive"],
    explanation="bounded model checking of the real utils.c integer formatters against a decode-back oracle",
)
