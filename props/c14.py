from vlib.core import Case

H = "harness/c14_inttostr.c"
FUNCS = ["UInt32ToStrBaseSign", "UInt64ToStrBaseSign", "SCPI_Int32ToStr", "SCPI_UInt32ToStrBase", "SCPI_Int64ToStr",
         "SCPI_UInt64ToStrBase"]


def mk(width, base, api=0, lo=None, hi=None, timeout=300, solver=None, tag="", mode=3, paths=False):
    defs = ["-DWIDTH=%d" % width, "-DBASE=%d" % base, "-DAPI=%d" % api, "-DMODE=%d" % mode]
    b = dict(width=width, base=base, api="public wrappers" if api else "U*ToStrBaseSign", values="all 2^%d" % width,
             checks={1: "canonical form + decode-back (full buffer)", 2: "truncation relation for every buffer length 0..70",
                     3: "canonical form + decode-back + truncation relation for every buffer length 0..70"}[mode],
             engine="path-wise symbolic execution (--paths fifo), one SAT query per path" if paths else "monolithic BMC")
    name = "w%d-b%d-api%d-m%d%s" % (width, base, api, mode, tag)
    if hi is not None:
        defs += ["-DMAG_LO=%dULL" % lo, "-DMAG_HI=%dULL" % hi]
        b["values"] = "magnitude in [%d, %d], negative and non-negative, signed and unsigned" % (lo, hi)
    flags = ["--paths", "fifo"] if paths else []
    return Case(name, H, ["utils.c"], defs=defs, unwind=75, timeout=timeout, solver=solver, bounds=b,
                functions=FUNCS, models=False, flags=flags, optional_witness=(["negative"] if "-win" in tag else []))


def tables(width, base):
    umax = (1 << width) - 1
    pw, md = [], []
    j = 0
    while base ** j <= umax:
        pw.append(base ** j)
        md.append(min(base - 1, umax // (base ** j)))
        j += 1
    return pw, md


def chain(width, base, api=0, timeout=1800, paths=True, solver=None, lo=None, hi=None, tag=""):
    """remainder-chain oracle (MODE 4), all values unless a slice is given"""
    eb = base if base in (2, 8, 16) else 10
    pw, md = tables(width, eb)
    sfx = "ULL" if width == 64 else "U"
    defs = ["-DWIDTH=%d" % width, "-DBASE=%d" % base, "-DAPI=%d" % api, "-DMODE=4",
            "-DPOW_TABLE={" + ",".join("%d%s" % (v, sfx) for v in pw) + "}", "-DMAXD_TABLE={" + ",".join(str(v) for v in md) + "}"]
    b = dict(width=width, base=base, api="public wrappers" if api else "U*ToStrBaseSign", values="all 2^%d" % width,
             checks="canonical form + decode-back in remainder-chain form (full buffer)",
             engine="path-wise symbolic execution (--paths fifo)" if paths else "monolithic BMC")
    if hi is not None:
        defs += ["-DMAG_LO=%dULL" % lo, "-DMAG_HI=%dULL" % hi]
        b["values"] = "magnitude in [%d, %d]" % (lo, hi)
    return Case("w%d-b%d-api%d-chain%s" % (width, base, api, tag), H, ["utils.c"], defs=defs, unwind=75, timeout=timeout, solver=solver, bounds=b,
                functions=FUNCS, models=False, flags=(["--paths", "fifo"] if paths else []))


def cases(tier):
    cs = []
    q = tier == "quick"
    # 32 bit, bases 2/8/16: every value, every buffer length
    for b in (2, 8, 16):
        cs.append(mk(32, b, 0, timeout=900))
    cs.append(mk(32, 16, 1, timeout=900))
    # 64 bit: canonical form for every value (path-wise: the divisor is a constant on each path)
    for b in (2, 8, 16):
        cs.append(mk(64, b, 0, mode=1, paths=True, timeout=900))
    cs.append(mk(64, 2, 1, mode=1, paths=True, timeout=900))
    # 64 bit truncation relation (monolithic): base 16 every value; bases 2 and 8 short values (stated slice) -
    # path-wise exploration of the truncation relation did not finish in 900 s (one path per buffer length x digit count)
    cs.append(mk(64, 16, 0, timeout=1800))
    for b in (2, 8):
        cs.append(mk(64, b, 0, 0, 255, timeout=1800, tag="-small"))
    if not q:
        cs.append(mk(64, 8, 0, timeout=3000))
    # base 10: every value in small windows around the width / sign boundaries and around powers of ten (where a wrong
    # type width, sign test or divisor start would show); the windows are decided for all three modes
    for w in (32, 64):
        centres = [2 ** 7, 2 ** 8, 2 ** 15, 2 ** 16, 2 ** 31, 2 ** 32 - 1]
        if w == 64:
            centres += [2 ** 32 + 1, 2 ** 63, 2 ** 64 - 2]
        centres += [10 ** k for k in ((4, 9) if w == 32 else (9, 10, 18, 19))]
        for c in centres:
            lo, hi = max(0, c - 2), min(2 ** w - 1, c + 2)
            cs.append(mk(w, 10, 0, lo, hi, timeout=900, tag="-win%d" % c))
    # base 10 and "any other base means 10"
    for w in (32, 64):
        # thorough: 10^6 values for 32 bit (1146 s); the 64-bit formatter has no verdict for 10^6 within 1800 s, 10^5 it is
        hi = 9999 if q else (999999 if w == 32 else 99999)
        cs.append(mk(w, 10, 0, 0, hi, timeout=1800 if q else 3600, tag="-lo"))
        cs.append(mk(w, 10, 1, 0, 999 if q else 9999, timeout=1800, tag="-lo"))
        cs.append(mk(w, 7, 0, 0, 999 if q else 9999, timeout=1800, tag="-lo"))
        cs.append(mk(w, 0, 0, 0, 99 if q else 999, timeout=1800, tag="-lo"))
    return cs


META = dict(
    bounds=dict(buffer_len="0..70", bases="2, 8, 16: all values of both widths for canonical form; truncation: all 32-bit "
                "values, 64-bit full-length and short slices; base 10 and 'other': magnitude slice per case plus 5-value windows around 2^7, 2^8, 2^15, 2^16, 2^31, 2^32, 2^63, 2^64 and powers of ten"),
    outside=["base-10 magnitudes above the per-case slice (the digit loop's repeated division defeats every back end "
             "present beyond ~10^6, see DESIGN.md C14)",
             "64-bit truncation relation in bases 2 and 8 for magnitudes above 255 (canonical form is proved for all of them; base 16 truncation is proved for all values)",
             "buffer lengths above 70 (output is at most 65 characters; no code path depends on larger lengths)"],
    assumptions=["len <= 70", "the truncated call's destination is a 74-byte object whose bytes at and beyond len hold an "
                 "arbitrary (symbolic) fill value that must survive"],
    explanation="bounded model checking of the real utils.c integer formatters against a decode-back oracle",
)
