import itertools

from vlib.core import Case

H = "harness/c06_framing.c"
SRCS = ["parser.c", "lexer.c", "utils.c", "error.c", "fifo.c", "ieee488.c"]
FUNCS = ["SCPI_Parse", "processCommand", "findCommandHeader", "writeDelimiter", "writeSemicolon", "writeNewLine", "SCPI_ResultBool",
         "SCPI_ResultInt32", "SCPI_ResultText", "SCPI_ResultCharacters", "SCPI_ResultArbitraryBlock", "SCPI_ResultArbitraryBlockHeader",
         "SCPI_ResultArbitraryBlockData", "scpiParser_detectProgramMessageUnit", "composeCompoundCommand", "matchCommand"]


def mk(tmpl, timeout=600, maxi=3, kbase=0):
    k = len(tmpl)
    outmax = k * (maxi * 6 + maxi) + k + 4  # longest item text is 6 characters
    return Case("tmpl-" + tmpl + "-i%d-k%d" % (maxi, kbase), H, SRCS, defs=['-DTEMPLATE="%s"' % tmpl, "-DMAXI=%d" % maxi, "-DOUTMAX=%d" % outmax, "-DKBASE=%d" % kbase], unwind=outmax + 3,
                unwindset={"hx_write.0": 8, "SCPI_RegSet.0": 4, "SCPI_ErrorPushEx.0": 10, "findCommandHeader.0": 14, "harness.3": 130, "app.0": 8,
                           "strlen.0": 8, "strnpbrk.0": 6, "strnpbrk.1": 6, "UInt64ToStrBaseSign.0": 66, "UInt64ToStrBaseSign.1": 22, "UInt32ToStrBaseSign.0": 34, "UInt32ToStrBaseSign.1": 12},
                timeout=timeout, functions=FUNCS, 
                bounds=dict(message="concrete template %s (Q = query unit, C = command unit), i.e. the text %s" % (
                    tmpl, ";".join(chr(65 + i) + ("?" if c == "Q" else "") for i, c in enumerate(tmpl)) + "\\r\\n"),
                    handlers="symbolic: 0..%d items per query" % maxi + " from " + {0: "{bool, int32, text, mnemonic, block, streamed block}", 6: "{uint64 hex, uint32 binary, int64, double, float, uint64 octal}", 12: "{empty block, empty binary array, two-element ASCII array, characters, uint8, int16}"}[kbase] + ", error pushed at any point or not, OK or ERR",
                    carried_state="arbitrary first_output / output_count / input_count / arbitrary_remaining / cmd_error before the call"))


def cases(tier):
    cs = []
    if tier == "quick":
        for kb in (0, 6, 12):
            for t in ("Q", "C"):
                cs.append(mk(t, 600, 3, kb))
            for t in ("QQ", "QC", "CQ", "CC"):
                cs.append(mk(t, 900, 2, kb))
            for k in (3, 4):
                for t in itertools.product("QC", repeat=k):
                    cs.append(mk("".join(t), 900, 1, kb))
        return cs
    # 4-unit templates with 2 items per unit did not finish in 30 CPU-minutes each: they stay at 1 item per unit
    for k in range(1, 5):
        for t in itertools.product("QC", repeat=k):
            for kb in (0, 6, 12):
                cs.append(mk("".join(t), 6000, {1: 3, 2: 3, 3: 2, 4: 1}[k], kb))
    for t in ("QQQQQ", "QCQCQ", "CQQQC"):
        cs.append(mk(t, 6000, 1, 0))
    return cs


META = dict(
    bounds=dict(units="every query/command template of 1..4 units (quick: 0..3 items per unit for 1 unit, 0..2 for 2 units, 0..1 for 3-4 units; thorough: 0..3 for 1-2 units, 0..2 for 3 units, 0..1 for 4 units) and selected 5-unit templates (thorough)", items="see units"),
    outside=["more than 3 items per unit, other result types (every result function goes through the same delimiter routine)",
             
             "header texts other than the template's single-letter headers (dispatch is C02's subject)"],
    assumptions=["write callback accepts all bytes"],
    explanation="bounded model checking of real SCPI_Parse framing logic on concrete templates with symbolic handler behaviour",
)
