from vlib.core import Case

H = "harness/c07_roundtrip.c"
SRCS = ["parser.c", "lexer.c", "utils.c", "error.c", "fifo.c", "ieee488.c"]
US = {"SCPI_RegSet.0": 4, "SCPI_ErrorPushEx.0": 10, "vm_scan.0": 2, "contract_digits.0": 68, "vm_scan.1": 68, "hx_write.0": 68, "skipBinNum.0": 68, "skipOctNum.0": 68, "skipHexNum.0": 68, "skipNumbers.0": 68, "UInt64ToStrBaseSign.0": 22, "UInt64ToStrBaseSign.1": 22, "UInt32ToStrBaseSign.0": 12, "UInt32ToStrBaseSign.1": 12}
STUB = dict(remove_bodies=["UInt32ToStrBaseSign", "UInt64ToStrBaseSign"], link_stubs=["UInt32ToStrBaseSign", "UInt64ToStrBaseSign"])
NAMES = {1: "int32-dec", 2: "uint32", 3: "int64-dec", 4: "uint64", 5: "bool", 6: "text", 7: "block", 8: "ascii-array-int32", 9: "int16-uint16-real-digits"}
FUNCS = {1: ["SCPI_ResultInt32", "SCPI_ParamInt32"], 2: ["SCPI_ResultUInt32Base", "SCPI_ParamUInt32"], 3: ["SCPI_ResultInt64", "SCPI_ParamInt64"],
         4: ["SCPI_ResultUInt64Base", "SCPI_ParamUInt64"], 5: ["SCPI_ResultBool", "SCPI_ParamBool"], 6: ["SCPI_ResultText", "SCPI_ParamCopyText", "scpiLex_StringProgramData"],
         7: ["SCPI_ResultArbitraryBlock", "SCPI_ParamArbitraryBlock", "scpiLex_ArbitraryBlockProgramData"], 8: ["SCPI_ResultArrayInt32", "SCPI_ParamArrayInt32"],
         9: ["SCPI_ResultInt16", "SCPI_ResultUInt16", "UInt32ToStrBaseSign", "SCPI_ParamInt32", "SCPI_ParamUInt32"]}


def mk(t, base=10, stub=True, mag=None, timeout=900, unwind=16, extra=(), tag=""):
    defs = ["-DTYPE=%d" % t, "-DBASE=%d" % base] + list(extra)
    if mag is not None:
        defs.append("-DMAG_HI=%du" % mag)
    kw = dict(STUB) if stub else {}
    name = NAMES[t] + ("-b%d" % base if t in (2, 4) else "") + ("-contract" if stub and t in (1, 2, 3, 4, 8) else "") + tag
    b = dict(roundtrip=" -> ".join(FUNCS[t]))
    if t in (1, 2, 3, 4, 8):
        b["values"] = ("all values of the width" if mag is None else "magnitude <= %d" % mag)
        b["digits"] = ("C14 contract stub (any canonical digit string of the magnitude)" if stub else "real U*ToStrBaseSign")
    stubs = ["strtol/strtoul/strtoll/strtoull (exact models)"]
    if stub and t in (1, 2, 3, 4, 8):
        stubs.append("UInt32ToStrBaseSign/UInt64ToStrBaseSign replaced by their C14 contract (arbitrary canonical digit string decoding to the magnitude)")
    return Case(name, H, SRCS, defs=defs, unwind=unwind, unwindset=US, timeout=timeout, mem_est=(10 if t in (6, 8) else 4), functions=FUNCS[t] + ["SCPI_Parameter", "scpiParser_parseProgramData"],
                stubs=stubs, bounds=b, **(kw if t in (1, 2, 3, 4, 8) else {}))


def cases(tier):
    q = tier == "quick"
    cs = [mk(5, unwind=12), mk(6, unwind=20, extra=["-DTXT=%d" % (5 if q else 6)], timeout=900 if q else 3000), mk(7, unwind=20)]
    # every value of the width, bases 2/8/16, digit generator by its C14 contract
    for b in (2, 8, 16):
        cs.append(mk(2, b))
        cs.append(mk(4, b))
    # decimal: real digit generation end to end on a magnitude slice (the contract form of the decimal round trip needs the
    # solver to equate two 20-step multiply-by-ten chains: no verdict in 2400 s, not a registered case)
    cs.append(mk(1, stub=False, mag=999 if q else 99999, tag="-real", timeout=900 if q else 3000))
    cs.append(mk(3, stub=False, mag=999 if q else 99999, tag="-real", timeout=900 if q else 3000))
    cs.append(mk(2, 10, stub=False, mag=999 if q else 99999, tag="-real", timeout=900 if q else 3000))
    cs.append(mk(8, stub=False, mag=9 if q else 99, unwind=16, tag="-real", timeout=900 if q else 3000))
    if not q:
        cs.append(mk(9, stub=False, unwind=16, timeout=3000))
        cs.append(mk(2, 16, stub=False, tag="-real", timeout=3000))
    return cs


META = dict(
    bounds=dict(integers="every value of both widths in bases 2/8/16 with the digit generator replaced by its C14 contract; decimal: real digit "
                "generation end to end on a magnitude slice (quick), plus all 16-bit values and 32-bit hex with real digits (thorough)", text="all 7-bit strings of length 0..5 (quick) / 0..6 (thorough) "
                "including both quote characters", blocks="all byte strings of length 0..12", arrays="3 ASCII int32 elements"),
    outside=["floats and doubles (digits come from libc printf / the FP digit loop, see C16)", "texts longer than 6 and blocks longer than 12 bytes",
             "base-10 digit generation itself beyond C14's magnitude bound (assumed through C14's contract here)"],
    assumptions=["response data is fed back in a NUL-terminated buffer, like the input buffer", "with -contract cases: U*ToStrBaseSign "
                 "satisfies the post-condition that C14 checks"],
    explanation="bounded model checking of real Result* -> real lexer -> real Param* round trips",
)
