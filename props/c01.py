from vlib.core import Case
from props import c08, c10, c13, c15, c17, c20

HP = "harness/c01_params.c"
SRCS = ["parser.c", "lexer.c", "units.c", "utils.c", "error.c", "fifo.c", "ieee488.c", "expression.c"]
APIS = ["SCPI_ParamInt32", "SCPI_ParamUInt64", "SCPI_ParamDouble", "SCPI_ParamFloat", "SCPI_ParamBool", "SCPI_ParamChoice", "SCPI_ParamCharacters",
        "SCPI_ParamArbitraryBlock", "SCPI_ParamCopyText", "SCPI_ParamNumber", "SCPI_ParamArrayInt32", "SCPI_ExprNumericListEntry",
        "SCPI_ExprChannelListEntry"]


def params(api, n, timeout=900, solver=None, config=(), tag=""):
    us = {"SCPI_RegSet.0": 4, "SCPI_ErrorPushEx.0": 10, "translateUnit.0": 130, "SCPI_ParamToChoice.0": 12, "strlen.0": 10, "strncasecmp.0": 10,
          "vm_scan.0": n + 2, "vm_scan.1": n + 2}
    return Case("params-%s-n%d%s" % (APIS[api][5:], n, tag), HP, SRCS, defs=["-DAPI=%d" % api, "-DN=%d" % n], config=list(config), unwind=n + 4, unwindset=us,
                object_bits=11, timeout=timeout, solver=solver, mem_est=6, functions=[APIS[api], "SCPI_Parameter", "scpiParser_parseProgramData"],
                stubs=["strtol family / strtod / strtof (consumed-prefix exact models: they stop at the NUL that ends the buffer)", "strncasecmp, strlen (CBMC models)"],
                bounds=dict(api=APIS[api], input="every NUL-terminated byte string of 0..%d bytes over all byte values, cursor at every offset, reader applied twice" % n,
                            config=" ".join(config) or "default"))


def cases(tier):
    q = tier == "quick"
    cs = []
    # (a) every token recogniser on every bounded input (memory safety + termination are part of each obligation set)
    cs += c13.leaf_cases(tier)
    # (b) program data / unit detection
    cs += [c for c in c13.cases(tier) if c.name.startswith("unit-m1")]
    # (c) parameter and expression APIs on arbitrary data
    for api in range(len(APIS)):
        if APIS[api] == "SCPI_ExprChannelListEntry":
            continue  # no verdict within 28 CPU-minutes on arbitrary bytes; the channel-list walker runs with all memory checks in C19's cases (shaped and 6-byte bodies)
        cs.append(params(api, 3, 900 if q else 3000))
    if not q:
        cs.append(params(0, 3, 3000, None, ["-DUSE_DEVICE_DEPENDENT_ERROR_INFORMATION=0"], "-noinfo"))
        cs.append(params(9, 3, 3000, None, ["-DUSE_MEMORY_ALLOCATION_FREE=0"], "-heap"))
    # (d) input buffer management incl. overrun and zero-length calls
    cs += [c for c in c08.cases(tier) if c.name.startswith("buffer-logic")]
    # (e) formatting / copying into caller buffers, built-in dtostre configuration
    cs += c15.cases(tier)
    # (f) result emitters incl. blocks/arrays; error queue (malloc, no-info) and static heap configurations
    cs += [c for c in c17.cases(tier) if c.name.startswith(("data", "block", "array-Int16", "array-Double"))]
    cs += [c for c in c10.cases(tier) if "op1" in c.name or "op5" in c.name]
    cs += [c for c in c20.cases(tier) if c.name.endswith(("op1", "op3"))]
    seen = set()
    out = []
    for c in cs:
        if c.name not in seen:
            seen.add(c.name)
            out.append(c)
    return out


META = dict(
    ub_is_violation=True,
    bounds=dict(layers="token recognisers (all inputs up to 6/9 bytes), program data (5/7 bytes), parameter and expression readers on arbitrary "
                "NUL-terminated data (3 bytes, twice), input buffer logic incl. overrun (streams up to 5/7 bytes, buffers 2..7), formatting into "
                "caller buffers of every length 0..24/40, block/array emitters, error queue and static heap steps",
                configurations="default, no device-dependent info, static info heap, built-in dtostre"),
    outside=["inputs longer than the per-layer bounds", "whole-pipeline runs SCPI_Input -> SCPI_Parse -> handler on symbolic text beyond what C02/C05 "
             "cover (the pipeline is checked layer by layer: each layer's pre-state is arbitrary)", "16-bit int targets"],
    assumptions=["the buffer handed to a parameter reader is NUL-terminated (SCPI_Input / SCPI_Parse guarantee it before every parse)"],
    explanation="memory-safety / undefined-arithmetic / termination obligations of CBMC over every layer of the library with arbitrary bounded inputs",
)
