from vlib.core import Case
from props import c08

H = "harness/c09_isolation.c"
SRCS = ["parser.c", "lexer.c", "utils.c", "error.c", "fifo.c", "ieee488.c"]
FUNCS = ["SCPI_Parse", "processCommand", "composeCompoundCommand", "findCommandHeader", "SCPI_Parameter", "SCPI_ParamInt32", "SCPI_ResultInt32",
         "SCPI_ResultArbitraryBlockHeader", "SCPI_ResultArbitraryBlockData", "writeDelimiter", "writeNewLine", "scpiParser_detectProgramMessageUnit"]
MSGA = ["X:Y 1,2;Z?\\n", "X:Y 1,2;W\\n", "X:Y \\\"a", "X:Y #15ab", "Q;X:Y 1", "X:Z?;Y 1,2,3;:X:W\\n", "*X;X:Y"]
MSGB = ["Y 7;Z? 3,4\\n", "Z?;Y 1\\n", ":X:Y 1;Z? 2\\n"]


def mk(ia, ib, havoc, timeout=600, aread=0, bread=2):
    return Case("a%d-b%d-h%d-r%d%d" % (ia, ib, havoc, aread, bread), H, SRCS,
                defs=['-DMSGA="%s"' % MSGA[ia], '-DMSGB="%s"' % MSGB[ib], "-DHAVOC=%d" % havoc, "-DA_READ=%d" % aread, "-DB_READ=%d" % bread], unwind=50,
                unwindset={"SCPI_RegSet.0": 4, "SCPI_ErrorPushEx.0": 10, "findCommandHeader.0": 7, "strnpbrk.0": 6, "strnpbrk.1": 12,
                           "vm_scan.0": 3, "vm_scan.1": 4},
                timeout=timeout, mem_est=4, object_bits=10, functions=FUNCS, stubs=["strtol (exact model)", "strndup/strnlen models"],
                bounds=dict(message_A=MSGA[ia].replace("\\\\", "").replace("\\", ""), message_B=MSGB[ib].replace("\\", ""),
                            carried_state=("arbitrary first_output/output_count/input_count/cmd_error/arbitrary_remaining/separator flag/"
                                           "parser_state/param_list before B" if havoc else "exactly what A left behind"),
                            handlers="symbolic behaviour: A's handlers emit 0..2 items, push an error, fail, read one parameter or leave a "
                                     "block unfinished; B's handlers emit 0..2 items, read 0..2 parameters, push an error or fail"))


def cases(tier):
    # third anchor of C09: consumed bytes are removed from the input buffer and the rest is moved to the front - the functional
    # specification of SCPI_Input's buffer logic (shared with C08) decides that for every stream / chunking within its bound
    cs = [c08.buflogic(5 if tier == "quick" else 6, timeout=900 if tier == "quick" else 3000)]
    if tier == "quick":
        for ia in range(len(MSGA)):
            for ib in range(len(MSGB)):
                cs.append(mk(ia, ib, 1, aread=(ia + ib) % 2, bread=(ia + 2 * ib + 1) % 3))
        for ia in (0, 2, 3, 5):
            cs.append(mk(ia, ia % len(MSGB), 0, aread=1 - ia % 2, bread=2 - ia % 3))
    else:
        for ia in range(len(MSGA)):
            for ib in range(len(MSGB)):
                for h in (0, 1):
                    for ar in (0, 1):
                        for br in (0, 1, 2):
                            cs.append(mk(ia, ib, h, 2400, ar, br))
    return cs


META = dict(
    bounds=dict(messages="7 concrete messages A (complete, failing midway, unfinished block, incomplete string, undefined header, common "
                "command) x 3 concrete messages B with parameters, compound headers and queries", handlers="symbolic behaviour",
                carried_state="arbitrary (havoc) and as left by A"),
    outside=["message texts other than the listed templates (text-level dispatch and lexing are C02/C13; this check is about state "
             "that could leak between messages)", "effects through the status registers and the error queue (exempted by the statement)"],
    assumptions=["handlers do not keep state of their own"],
    explanation="differential bounded model checking: B after A (and after arbitrary carried-over parser fields) versus B on a fresh context",
)
