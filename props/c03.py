import glob
import itertools
import os
import re

from vlib.core import Case, REPO

H = "harness/c03_match.c"


def parse_pattern(p):
    """-> (keywords [(long, short, optional, numeric)], query) or None if outside the supported grammar"""
    query = p.endswith("?")
    body = p[:-1] if query else p
    kws = []
    i = 0
    depth = 0
    cur = ""
    cur_opt = False
    first = True

    def flush():
        nonlocal cur, cur_opt
        if cur == "":
            return True
        numeric = cur.endswith("#")
        word = cur[:-1] if numeric else cur
        if not word or not re.fullmatch(r"\*?[A-Za-z][A-Za-z0-9_]*", word):
            return False
        m = re.search(r"[a-z]", word)
        short = word[:m.start()] if m else word
        if not short:
            return False
        if re.search(r"[0-9]$", word) and numeric:
            return False
        kws.append((word, short, cur_opt, numeric))
        cur = ""
        return True

    while i < len(body):
        c = body[i]
        if c == "[":
            if not flush():
                return None
            depth += 1
            if depth > 1:
                return None
            cur_opt = True
        elif c == "]":
            if not flush():
                return None
            depth -= 1
            if depth < 0:
                return None
            cur_opt = False
        elif c == ":":
            if not flush():
                return None
            cur_opt = depth > 0
        elif c == "?":
            return None
        else:
            cur += c
        i += 1
    if not flush() or depth != 0 or not kws:
        return None
    return kws, query


def side_condition_ok(kws):
    """no optional keyword can be mistaken for a keyword that may follow it (and no two adjacent-reachable keywords
    share a spelling): conservative syntactic test - all long/short spellings pairwise distinct, and no spelling of a
    numeric keyword is a prefix of another keyword's spelling followed by digits."""
    sp = []
    for (lng, sht, opt, num) in kws:
        sp.append({lng.upper(), sht.upper()})
    for a in range(len(sp)):
        for b in range(a + 1, len(sp)):
            if sp[a] & sp[b]:
                return False
    if len(kws) > 7:
        return False
    return True


def harvest():
    pats = set()
    for f in glob.glob(os.path.join(REPO, "examples", "**", "*.c"), recursive=True) + \
            glob.glob(os.path.join(REPO, "examples", "**", "*.cpp"), recursive=True) + \
            glob.glob(os.path.join(REPO, "libscpi", "test", "*.c")):
        try:
            txt = open(f, errors="replace").read()
        except OSError:
            continue
        pats.update(re.findall(r'\.pattern\s*=\s*"([^"]+)"', txt))
        pats.update(re.findall(r'TEST_MATCH_COMMAND2?\("([^"]+)"', txt))
    return sorted(pats)


def family(maxk, full_upto):
    words = ["ALPha", "BETa", "GAMma", "DELta"]
    out = []
    for k in range(1, maxk + 1):
        flags = list(itertools.product([(0, 0), (1, 0), (0, 1), (1, 1)], repeat=k))
        if k > full_upto:
            flags = flags[::max(1, len(flags) // 12)]
        for fl in flags:
            s = ""
            for idx, (opt, num) in enumerate(fl):
                w = words[idx] + ("#" if num else "")
                if opt:
                    s += "[:" + w + "]"
                else:
                    s += (":" if idx > 0 else "") + w
            if all(o for (o, n) in fl):
                continue  # a pattern with only optional keywords accepts the empty header: outside the grammar used
            out.append(s)
            out.append(s + "?")
    return out


def short_family(ks):
    """short two-letter keywords, every placement of optional keywords (no numeric suffixes): 3 and 4 keywords are
    affordable with these, which the long-keyword family is not"""
    words = ["Ab", "Cd", "Ef", "Gh"]
    out = []
    for k in ks:
        for fl in itertools.product([0, 1], repeat=k):
            if all(fl):
                continue
            s = ""
            for idx, opt in enumerate(fl):
                s += ("[:" + words[idx] + "]") if opt else ((":" if idx > 0 else "") + words[idx])
            out.append(s)
    return out


def cstr(s):
    return '"' + s.replace("\\", "\\\\").replace('"', '\\"') + '"'


def mk(pat, lmax, timeout, maxdig=9, min_unwind=32):
    pp = parse_pattern(pat)
    if pp is None:
        return None
    kws, query = pp
    if not side_condition_ok(kws):
        return None
    minlen = sum(len(s) for (l, s, o, n) in kws if not o) + max(0, sum(1 for (l, s, o, n) in kws if not o) - 1) + (1 if query else 0)
    if minlen == 0:
        return None
    L = min(max(minlen + (3 if maxdig < 9 else 4), 10), lmax)
    # alphabet: every letter of the short forms in both cases first (so that at least the short spelling exists), then
    # the remaining letters of the long forms, a foreign letter, digits, '_', ':', '?', '*'  (32 symbols)
    short_letters, long_letters = [], []
    for (l, s, o, n) in kws:
        for ch in s:
            if ch.isalpha() and ch.upper() not in short_letters:
                short_letters.append(ch.upper())
    for (l, s, o, n) in kws:
        for ch in l:
            if ch.isalpha() and ch.upper() not in short_letters and ch.upper() not in long_letters:
                long_letters.append(ch.upper())
    letters = short_letters + long_letters
    foreign = next(c for c in "QZXJKWVY" if c not in letters)
    fixed = [foreign, "0", "1", "9", "_", ":", "?", "*"]
    if any(l.startswith("*") for (l, s, o, n) in kws) and "*" not in fixed:
        fixed.append("*")
    alpha = []
    room = 32 - len(fixed)
    for ch in letters:
        if len(alpha) < room:
            alpha.append(ch)
    if len(short_letters) > room:
        return None
    for ch in letters:
        if len(alpha) < room:
            alpha.append(ch.lower())
    alpha += fixed
    while len(alpha) < 32:
        alpha.append(":")
    alpha = alpha[:32]
    kwinit = "{" + ",".join("{%s,%s,%d,%d}" % (cstr(l), cstr(s), 1 if o else 0, 1 if n else 0) for (l, s, o, n) in kws) + "}"
    name = "pat-" + re.sub(r"[^A-Za-z0-9]", lambda m: {"[": "(", "]": ")", ":": ".", "?": "Q", "#": "N", "*": "S"}.get(m.group(0), "_"), pat)
    defs = ["-DPATTERN=" + cstr(pat), "-DKW_INIT=" + kwinit, "-DALPH=" + cstr("".join(alpha)), "-DL=%d" % L, "-DMAXDIG=%d" % maxdig]
    if minlen > L:
        return None
    return Case(name, H, ["utils.c"], defs=defs, unwind=max(L, len(pat), min_unwind) + 3,
                unwindset={"strnpbrk.0": 6}, timeout=timeout,
                functions=["matchCommand", "matchPattern", "compareStr", "compareStrAndNum", "patternSeparatorShortPos",
                           "patternSeparatorPos", "cmdSeparatorPos", "strnpbrk", "strBaseToInt32"],
                stubs=["strtol (exact model)", "strnlen (exact)", "strncasecmp (CBMC model)"],
                bounds=dict(pattern=pat, header="every string of length 1..%d over {%s}" % (L, " ".join(sorted(set(alpha)))),
                            numeric_suffix="at most %d digits" % maxdig, modes="lookup (no number array) and SCPI_CommandNumbers mode"))


def cases(tier):
    q = tier == "quick"
    pats = harvest()
    fam = family(2 if q else 3, 2)
    cs = []
    seen = set()
    # short-keyword patterns with two / three numeric keywords (cheap enough for the quick tier: short spellings, 1 digit)
    short_multi = ["Ab[:Cd#][:Ef#]?", "Ab#:Cd#"] if q else ["Ab#[:Cd#][:Ef#]", "Ab[:Cd#][:Ef#]?", "Ab#:Cd#", "[:Ab#]:Cd#[:Ef]"]
    for p in short_multi:
        seen.add(p)
        c = mk(p, 11, 900 if q else 3000, 1 if q else 3)
        if c is not None:
            cs.append(c)
    for p in short_family((3, 4)):
        seen.add(p)
        c = mk(p, 12, 600 if q else 1500, 1, 0)
        if c is not None:
            cs.append(c)
    for p in pats + fam:
        if p in seen:
            continue
        seen.add(p)
        numeric = "#" in p
        if q:
            if p.count("#") >= 2:
                continue  # two or more numeric keywords: 5-13 minutes each, thorough tier only
            c = mk(p, 13 if numeric else 12, 900, 2)
        else:
            # thorough: also the patterns with two or more numeric keywords and a sample of three-keyword long-form
            # patterns; header length / suffix digits one step beyond the quick tier (longer headers were not validated
            # within the time available)
            c = mk(p, 14 if numeric else 13, 3000, 3)
        if c is not None:
            cs.append(c)
    return cs


META = dict(
    bounds=dict(patterns="every pattern found in /repo tests and examples at run time that fits the supported grammar and the "
                "side condition, plus a generated family of 1..2 (quick) / 1..3 (thorough) long keywords and 3..4 two-letter keywords with every optional / "
                "numeric placement", header_len="up to 13 (quick) / 14 (thorough) characters"),
    outside=["headers longer than the bound (long forms of the longest shipped patterns exceed it; their short forms and "
             "mixed forms are inside)", "numeric suffixes longer than 9 digits", "signs or blanks inside a header "
             "(cannot come out of the lexer)", "empty header or pattern", "patterns violating the statement's side condition"],
    assumptions=["header bytes are followed by a NUL inside the same object (headers live in the NUL-terminated input buffer)"],
    explanation="bounded model checking of the real matcher against a keyword-table reference matcher, one query per pattern",
)
