from vlib.core import Case

H = "harness/c05_params.c"
SRCS = ["parser.c", "lexer.c", "units.c", "utils.c", "error.c", "fifo.c", "ieee488.c"]
KN = ["Int32", "Double", "Bool", "Choice", "CopyText", "Number"]
FUNCS = ["SCPI_Parse", "processCommand", "SCPI_Parameter", "SCPI_ParamInt32", "SCPI_ParamDouble", "SCPI_ParamBool", "SCPI_ParamChoice",
         "SCPI_ParamCopyText", "SCPI_ParamNumber", "SCPI_ParamToChoice", "transformNumber", "scpiParser_detectProgramMessageUnit",
         "scpiParser_parseAllProgramData", "scpiParser_parseProgramData"]


def mk(k1, k2, n, timeout=900, solver=None):
    us = {"SCPI_RegSet.0": 4, "SCPI_ErrorPushEx.0": 10, "translateUnit.0": 130, "SCPI_ParamToChoice.0": 12, "findCommandHeader.0": 3,
          "strnpbrk.0": 6, "strnpbrk.1": 6, "strlen.0": 10, "strncasecmp.0": 10, "SCPI_Parse.0": n + 4, "SCPI_Parse.1": n + 4,
          "vm_scan.0": 3, "vm_scan.1": n + 2}
    return Case("sig-%s-%s-n%d" % (KN[k1], KN[k2], n), H, SRCS, defs=["-DK1=%d" % k1, "-DK2=%d" % k2, "-DN=%d" % n, "-DLEVEL=1"], unwind=n + 5, unwindset=us,
                object_bits=11, timeout=timeout, solver=solver, mem_est=8, functions=FUNCS,
                # two choices / quoted texts do not fit the data bound: delivering both items is not reachable for these pairs
                optional_witness=(["two-items-delivered"] if KN[k1] in ("Choice", "CopyText") and KN[k2] in ("Choice", "CopyText") else []),
                stubs=["strtol/strtod (exact consumed-prefix models)", "strncasecmp (CBMC model)", "strndup/strnlen models"],
                bounds=dict(message="H SP <data> LF with every data string of 0..%d bytes over {1 0 . V O N \\\" x , SP # H F ( ) -}" % n,
                            signature="%s then %s, each mandatory or optional (symbolic)" % (KN[k1], KN[k2])))


HA = "harness/c05_account.c"
TEMPLATES = [("1,2", 2, 0), ("1 , 2", 2, 0), ("1", 1, 0), ("", 0, 0), ("  ", 0, 0), ("1,2,3", 3, 0), ("#H1F , -7", 2, 0),
             ("1,", 0, 1), ("1,,2", 0, 1), ("1 2", 0, 1), ("#15ab", 0, 1), ("\\\"a", 0, 1), ("(1", 0, 1), (",1", 0, 1), ("1;", 1, 0), ("1 ,", 0, 1)]


def account(ti, reads, timeout=600, prefix=None):
    data, items, malformed = TEMPLATES[ti]
    us = {"SCPI_RegSet.0": 4, "SCPI_ErrorPushEx.0": 10, "findCommandHeader.0": 3, "strnpbrk.0": 6, "strnpbrk.1": 6, "strlen.0": 6}
    pdefs = ['-DPREFIX="%s"' % prefix[0], "-DPREFIX_ERRS=%d" % prefix[1]] if prefix else []
    return Case("tmpl%02d-reads%d%s" % (ti, reads, "-after-" + prefix[2] if prefix else ""), HA, SRCS,
                defs=['-DDATA="%s"' % data, "-DITEMS=%d" % items, "-DMALFORMED=%d" % malformed, "-DREADS=%d" % reads] + pdefs, unwind=48, unwindset=us,
                object_bits=11, timeout=timeout, mem_est=3, functions=FUNCS, optional_witness=["silent-failure"],
                stubs=["strtol (exact model)", "strndup/strnlen models"],
                bounds=dict(message="H " + data.replace("\\", "") + " LF (concrete)", handler="reads %d integer parameters (mandatory flags symbolic), then succeeds / pushes its own error / fails silently (symbolic); "
                            "cmd_error arbitrary before the call" % reads))


PAIRS_Q = [(0, 4), (1, 2), (5, 3), (4, 0)]
PAIRS_T = [(a, b) for a in range(6) for b in range(6)]


def cases(tier):
    acc = [account(ti, r) for ti in range(len(TEMPLATES)) for r in ((0, 2) if tier == "quick" else (0, 1, 2, 3))]
    # the same unit behind an earlier unit of the message that raised an error of its own / responded
    for pf in (("NOPE;", 1, "undefined"), ("G;", 0, "ok"), ("X 1,;", 1, "malformed")):
        for ti in (0, 2, 3, 7, 10):
            for r in ((1,) if tier == "quick" else (0, 1, 2, 3)):
                acc.append(account(ti, r, prefix=pf))
    if tier == "quick":
        return [mk(a, b, 4) for (a, b) in PAIRS_Q] + acc
    # 5-byte data for reader pairs is not registered: unvalidated within the time available (each 4-byte pair takes 100-330 s)
    return [mk(a, b, 4, 3000) for (a, b) in PAIRS_T] + acc


META = dict(
    bounds=dict(data_len="0..4", signatures="4 reader pairs quick / all 36 pairs of {Int32, Double, Bool, Choice, CopyText, Number} thorough, mandatory/optional symbolic"),
    outside=["parameter lists longer than the bound, more than two readers, array readers", "the -200 case (a handler failing without an error "
             "of its own is a handler property; the -200 path is exercised in C06/C09 templates)",
             "SCPI_Input's return value (checked with the input-buffer harness under C08/C01: it returns what the last executed message returned, FALSE on overrun)"],
    assumptions=["message NUL-terminated in its buffer"],
    explanation="bounded model checking of the real parameter path of SCPI_Parse against a reference program-data parser and an exact expected-error table",
)
