from vlib.core import Case
from props import c14

H = "harness/c15_buffers.c"
FN = {1: "SCPI_NumberToStr (value with unit)", 2: "SCPI_NumberToStr (special number name)", 3: "SCPI_DoubleToStr",
      4: "SCPI_FloatToStr", 5: "SCPI_ParamCopyText", 6: "SCPI_dtostre (built-in formatter)"}
SRCS = ["units.c", "utils.c", "parser.c", "lexer.c", "error.c", "fifo.c", "ieee488.c"]


def mk(fn, maxb=40, timeout=600):
    cfg = []
    rb, ls = [], []
    stubs = ["snprintf (contract model printing a harness-selected table text)", "strnlen (exact)"]
    if fn == 6:
        cfg = ["-DUSE_CUSTOM_DTOSTRE=1"]
        rb, ls = ["scpi_ecvt"], ["scpi_ecvt"]
        stubs = ["scpi_ecvt replaced by a stub returning an arbitrary digit string of the requested length and an arbitrary decimal exponent in [-330, 310]"]
    return Case("fn%d-b%d" % (fn, maxb), H, SRCS, defs=["-DFN=%d" % fn, "-DMAXB=%d" % maxb], config=cfg,
                unwind=max(maxb, 34) + 3, flags=["--no-array-field-sensitivity"], remove_bodies=rb, link_stubs=ls,
                timeout=timeout, functions=[FN[fn].split(" ")[0]], stubs=stubs,
                bounds=dict(function=FN[fn], buffer_len="0..%d (symbolic), end-aligned exact-size object" % maxb))


def cases(tier):
    mb = 24 if tier == "quick" else 40
    cs = [mk(fn, mb, 600 if tier == "quick" else 2400) for fn in (1, 2, 3, 4)]
    cs.append(mk(5, 12, 900 if tier == "quick" else 2400))
    cs.append(mk(6, 40, 900 if tier == "quick" else 3000))
    # integer to string (the statement's last item): the buffer-bound / truncation relation of C14's harness for every
    # buffer length 0..70 - both widths, signed and unsigned, decimal slice and windows at the sign boundary, one
    # non-decimal base with all 2^32 values
    q = tier == "quick"
    for w in (32, 64):
        cs.append(c14.mk(w, 10, 0, 0, 9999 if q else 99999, timeout=1800, tag="-lo"))
        cs.append(c14.mk(w, 10, 1, 0, 999 if q else 9999, timeout=1800, tag="-lo"))
        c = 2 ** (w - 1)
        cs.append(c14.mk(w, 10, 0, c - 2, c + 2, timeout=900, tag="-win%d" % c))
    cs.append(c14.mk(32, 16, 0, timeout=900))
    cs.append(c14.mk(64, 16, 0, timeout=1800))
    return cs


META = dict(
    ub_is_violation=True,
    bounds=dict(buffer_len="0..24 quick / 0..40 thorough, symbolic", values="eight table values whose printed lengths run from 1 to 22 characters",
                unit_name="any 1..5 upper-case letters", special_name="any 1..8 letters", quoted_text="any well-formed quoted string of 2..10 bytes"),
    outside=["the digits libc printf produces (not repository code)", "integer to string: values outside the slices listed per case (C14 holds the full set)",
             "buffer lengths above the bound"],
    assumptions=["snprintf contract: writes at most size bytes, NUL-terminates when size>0, returns the would-be length"],
    explanation="bounded model checking of the real formatting/copy functions with exact-size caller buffers of symbolic length",
)
