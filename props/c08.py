from vlib.core import Case
from props import c13

H = "harness/c08_chunking.c"
SRCS = ["parser.c", "lexer.c", "utils.c", "error.c", "fifo.c", "ieee488.c"]
FUNCS = ["SCPI_Input", "scpiParser_detectProgramMessageUnit", "scpiParser_parseAllProgramData", "scpiParser_parseProgramData",
         "scpiLex_ProgramHeader", "scpiLex_ArbitraryBlockProgramData", "scpiLex_StringProgramData", "scpiLex_NewLine", "scpiLex_Semicolon"]


def mk(n, p, timeout=900, solver=None, kf=True):
    us = {"SCPI_Input.0": n + 2, "memcpy.0": n + 2, "memmove.0": n + 2, "memmove.1": n + 2, "SCPI_Parse.0": n + 3, "SCPI_Parse.1": n + 3,
          "SCPI_RegSet.0": 4, "SCPI_ErrorPushEx.0": 10}
    return Case("split-n%d-p%d" % (n, p), H, SRCS, defs=["-DN=%d" % n, "-DP=%d" % p], unwind=n + 3, unwindset=us,
                extra_c=["models/mem.c"], remove_bodies=["SCPI_Parse"], link_stubs=["SCPI_Parse"], timeout=timeout, solver=solver,
                mem_est=10, functions=FUNCS,
                stubs=["SCPI_Parse replaced by a recording stub (normalised message log)", "memcpy/memmove (byte-loop models)"],
                bounds=dict(stream="every byte stream of 2..%d bytes over {A 1 2 b SP , ; : * ? # dquote squote ( LF CR}" % n,
                            chunking="prefix of 0..%d bytes delivered first, then the rest at once versus cut at every position" % p,
                            buffer="input buffer of %d bytes (the stream always fits)" % (n + 2)))


HB = "harness/c08_inputbuf.c"


def buflogic(n, p=0, timeout=900, overrun=0, bufsz=None):
    bufsz = bufsz or (n + 1)
    us = {"SCPI_Input.0": n + 2, "scpiParser_detectProgramMessageUnit.0": n + 2, "SCPI_Parse.0": n + 3, "SCPI_RegSet.0": 4, "SCPI_ErrorPushEx.0": 10}
    return Case("buffer-logic-n%d-buf%d%s" % (n, bufsz, "-overrun" if overrun else ""), HB, SRCS,
                defs=["-DN=%d" % n, "-DBUFSZ=%d" % bufsz, "-DOVERRUN=%d" % overrun], unwind=2 * n + 6, unwindset=us,
                flags=["--no-array-field-sensitivity"],
                remove_bodies=["SCPI_Parse", "scpiParser_detectProgramMessageUnit"], link_stubs=["SCPI_Parse", "scpiParser_detectProgramMessageUnit"], timeout=timeout, mem_est=6, functions=["SCPI_Input"],
                optional_witness=(["fits-and-executes"] if bufsz <= 2 else []),
                stubs=["SCPI_Parse replaced by a recording stub with symbolic return value",
                       "scpiParser_detectProgramMessageUnit replaced by an abstract detector (unit = bytes up to and including the first ';' or LF) that satisfies the stability lemma by construction",
                       "memcpy/memmove: CBMC models with array field sensitivity off"],
                bounds=dict(stream="every byte stream of 1..%d bytes over all 256 byte values" % n,
                            chunking="one, two or three chunks cut at every pair of positions, then a zero-length call",
                            buffer="input buffer of %d bytes (exact-size object)" % bufsz))


def lemma(n, timeout=900, solver=None):
    us = {"SCPI_RegSet.0": 4, "SCPI_ErrorPushEx.0": 10, "scpiParser_parseAllProgramData.0": n // 2 + 2}
    return Case("stability-n%d" % n, H, SRCS, defs=["-DN=%d" % n, "-DPART=2"], unwind=n + 3, unwindset=us, timeout=timeout, solver=solver,
                mem_est=10, functions=FUNCS[1:],
                bounds=dict(input="every byte string of 2..%d bytes over the 16-symbol alphabet, every shorter prefix of it" % n,
                            lemma="unit decisions that do not depend on the end of the available data are stable under extension"))


def cases(tier):
    if tier == "quick":
        # the block recogniser's 'incomplete block swallows the rest' rule (second anchor of C08) is checked exactly at leaf level
        return [lemma(4), buflogic(5), buflogic(6, overrun=1, bufsz=4), buflogic(5, overrun=1, bufsz=2), c13.leaf(8, 8)]
    return [c13.leaf(8, 12, 3000), lemma(5, 6000), lemma(6, 9000, "cadical"), buflogic(6, timeout=3000), buflogic(7, timeout=6000), buflogic(8, overrun=1, bufsz=5, timeout=3000)]
    # the end-to-end differential variant (two contexts, real SCPI_Input + SCPI_Parse on symbolic text, `mk`) is not a
    # registered case: 3-byte streams exceed 12 GB without a verdict


META = dict(
    bounds=dict(stream_len="2..5 quick / 2..7 thorough", alphabet="16 symbols, one per character class relevant to unit detection"),
    outside=["streams longer than the bound", "streams that overrun the input buffer (C01 covers the overrun guard)",
             "what SCPI_Parse does with a message (C02/C05/C06/C09): chunking only decides which bytes form a message"],
    assumptions=["chunks are non-empty (a zero-length call is the flush request and is checked separately)"],
    explanation="stability lemma on the real unit detector + functional specification of the real SCPI_Input buffer logic + block recogniser leaf check; chunking invariance follows by induction over units and chunks",
)
