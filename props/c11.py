from vlib.core import Case

H = "harness/c11_status.c"
SRCS = ["ieee488.c", "error.c", "fifo.c", "minimal.c", "parser.c", "lexer.c", "utils.c"]
OPS = {1: "SCPI_RegSet(any register but STB, any value)", 2: "SCPI_RegSetBits", 3: "SCPI_RegClearBits",
       4: "SCPI_ErrorPush(any int16 code)", 5: "SCPI_ErrorPop", 6: "SCPI_ErrorClear", 7: "*CLS", 8: "*ESR?",
       9: "*ESE <0..99999>", 10: "*SRE <0..99999>", 11: "STAT:QUES:EVEN?", 12: "STAT:OPER:EVEN?",
       13: "STAT:QUES:ENAB <n>", 14: "STAT:OPER:ENAB <n>", 15: "STAT:PRES", 16: "*OPC", 17: "SYST:ERR?"}
FUNCS = ["SCPI_RegSet", "SCPI_RegSetBits", "SCPI_RegClearBits", "SCPI_RegGet", "SCPI_ErrorPushEx", "SCPI_ErrorPop",
         "SCPI_ErrorClear", "SCPI_ErrorCount", "fifo_add", "fifo_remove", "fifo_remove_last", "fifo_clear", "SCPI_CoreCls",
         "SCPI_CoreEsrQ", "SCPI_CoreEse", "SCPI_CoreSre", "SCPI_CoreOpc", "SCPI_StatusQuestionableEventQ",
         "SCPI_StatusOperationEventQ", "SCPI_StatusQuestionableEnable", "SCPI_StatusOperationEnable",
         "SCPI_StatusPreset", "SCPI_SystemErrorNextQ", "SCPI_ParamInt32", "SCPI_Parameter"]
QOPS = (8, 11, 12, 17)


def mk(prop, op, cap, config=(), tag=""):
    rb = ["UInt32ToStrBaseSign"] if op in QOPS else []
    if op == 17:
        rb = ["SCPI_ResultError"]
    stubs = ["strtol (exact model)"] if op in (9, 10, 13, 14) else []
    if op == 17:
        stubs.append("SCPI_ResultError body removed (response text is C18's subject; it does not touch registers or queue)")
    elif rb:
        stubs.append("UInt32ToStrBaseSign body removed (digits of the printed register value are irrelevant here; C14's subject)")
    return Case("p%d-op%02d-cap%d%s" % (prop, op, cap, tag), H, SRCS,
                defs=["-DPROP=%d" % prop, "-DOP=%d" % op, "-DCAP=%d" % cap], config=list(config), unwind=12,
                unwindset={"strlen.0": 80, "strnpbrk.0": 80, "strnpbrk.1": 80}, remove_bodies=rb, gen_bodies=rb,
                timeout=300, functions=FUNCS, stubs=stubs,
                bounds=dict(operation=OPS[op], queue_capacity=cap, registers="all ten registers arbitrary 16-bit "
                            "(pre-state constrained only by the coherence invariant)", config=" ".join(config) or "default"))


def gen(prop, tier):
    cs = []
    caps = (1, 2, 3, 4)
    for op in sorted(OPS):
        for cap in caps:
            if cap != caps[0] and op not in (4, 5, 6, 7, 17):
                continue
            cs.append(mk(prop, op, cap))
    # no device-dependent-info configuration
    for op in (4, 5, 6, 7, 17):
        cs.append(mk(prop, op, 2, ["-DUSE_DEVICE_DEPENDENT_ERROR_INFORMATION=0"], "-noinfo"))
    if True:
        for op in sorted(OPS):
            cs.append(mk(prop, op, 2, ["-DHAVE_STDBOOL=0"], "-c89bool"))
    return cs


def cases(tier):
    return gen(11, tier)


META = dict(
    bounds=dict(step="one operation from an arbitrary coherent state (inductive step)", capacities="1..4 (both tiers); default, no-info and unsigned-char-bool configurations"),
    outside=["direct writes to the status byte itself through SCPI_RegSet(SCPI_REG_STB, v) (the statement's histories "
             "write event, condition, enable and SRE registers)", "USE_CUSTOM_REGISTERS builds", "numeric parameters of "
             "*ESE/*SRE/STAT:..:ENAB longer than 5 digits"],
    assumptions=["pre-state: any ten 16-bit register values + queue fill level satisfying the coherence invariant",
                 "queue entries carry no device-dependent text in this harness (C10/C20 cover texts)"],
    explanation="inductive-step bounded model checking of the real status-register code",
)
