from vlib.core import Case

H = "harness/c18_errresp.c"
SRCS = ["parser.c", "utils.c", "error.c", "fifo.c", "ieee488.c", "lexer.c", "minimal.c"]
FUNCS = ["SCPI_ResultError", "SCPI_ResultInt32", "writeDelimiter", "writeSemicolon", "writeData", "strnpbrk", "scpiheap_get_parts"]


def cstr(s):
    return '"' + s + '"'


def mk(limit, dmax, tmax, code, heap=False, timeout=900, solver=None, qmax=3):
    defs = ["-DPART=1", "-DDMAX=%d" % dmax, "-DTMAX=%d" % tmax, "-DCODE=(%d)" % code, "-DCODE_TEXT=" + cstr(str(code)),
            "-DQMAX=%d" % qmax]
    scaled = limit != 255
    if scaled:
        defs += ["-DSCPI_CONSTANTS_H", "-DSCPI_STD_VERSION_REVISION=" + cstr("1999.0"),
                 "-DSCPI_STD_ERROR_DESC_MAX_STRING_LENGTH=%d" % limit]
    cfg = ["-DUSE_MEMORY_ALLOCATION_FREE=0"] if heap else []
    m = max(dmax, tmax) + 3
    return Case("resp-lim%d-d%d-t%d-%s%s" % (limit, dmax, tmax, "heap" if heap else "malloc", "" if code == -113 else "-c%d" % code),
                H, SRCS, defs=defs, config=cfg, unwind=m,
                unwindset={"strnpbrk.0": 3, "strnpbrk.1": m, "SCPI_ResultError.0": qmax + 2, "SCPI_ResultError.1": 5,
                           "w_check.0": m, "UInt32ToStrBaseSign.0": 12, "UInt32ToStrBaseSign.1": 12},
                remove_bodies=["SCPI_ErrorTranslate"], link_stubs=["SCPI_ErrorTranslate"], timeout=timeout, solver=solver,
                functions=FUNCS,
                stubs=["SCPI_ErrorTranslate replaced by a stub returning the symbolic description (the real table is PART 2)",
                       "strnlen (exact model)"],
                bounds=dict(limit="%d%s" % (limit, " (scaled model: constants.h overridden at compile time, same code)" if scaled else " (real SCPI_STD_ERROR_DESC_MAX_STRING_LENGTH)"),
                            description="every string of length 0..%d over {x, \\\"}" % dmax,
                            text="absent, or every string of length 0..%d over {y, ;, \\\"}" % tmax, quotes="at most %d in the description and at most %d in the text" % (qmax, qmax),
                            config="static heap (text wrapped at every offset)" if heap else "malloc"))


def table():
    return Case("translate-table", H, SRCS, defs=["-DPART=2", "-DCODE_TEXT=" + cstr("0")], unwind=4, timeout=300,
                functions=["SCPI_ErrorTranslate"], bounds=dict(code="all 65536 codes"))


def cases(tier):
    cs = [table()]
    if tier == "quick":
        cs += [mk(12, 10, 10, -113, qmax=2), mk(8, 6, 6, 7, heap=True, qmax=2), mk(12, 14, 4, -350, qmax=3),
               mk(6, 5, 5, -113, qmax=3), mk(6, 5, 5, -113, heap=True, qmax=3)]
    else:
        cs += [mk(12, 14, 14, -113, timeout=3000), mk(12, 12, 12, 7, heap=True, timeout=6000, qmax=2), mk(20, 18, 8, -113, timeout=6000, qmax=2),
               mk(20, 6, 20, -350, timeout=6000, qmax=2), mk(6, 5, 5, -113, qmax=3), mk(6, 5, 5, -113, heap=True, qmax=3), mk(8, 6, 6, 7, heap=True, qmax=2)]
    return cs


META = dict(
    bounds=dict(limit="scaled to 6/8/12 in quick and 6/8/12/20 in thorough (the macro is overridden at compile time, same code); the real 255 needs more than 12 GB and is not claimed", alphabet="description {x,\\\"}, text {y,;,\\\"}"),
    outside=["texts and descriptions longer than the per-case bounds", "the value 255 of the limit itself (checked scaled: the code is parametric in the macro)", "characters other than the representatives (only '\"' is treated specially by the code)"],
    assumptions=["write callback accepts all bytes"],
    explanation="bounded model checking of the real SCPI_ResultError with symbolic description/text against a 488.2 string reader",
)
