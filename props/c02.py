from vlib.core import Case

H = "harness/c02_dispatch.c"
SRCS = ["parser.c", "lexer.c", "utils.c", "error.c", "fifo.c", "ieee488.c"]
FUNCS = ["SCPI_Parse", "scpiParser_detectProgramMessageUnit", "scpiLex_ProgramHeader", "composeCompoundCommand", "findCommandHeader",
         "matchCommand", "matchPattern", "processCommand", "SCPI_ErrorPushEx", "SCPI_CmdTag", "SCPI_IsCmd"]


def mk(n, timeout=900, solver=None, config=(), tag="", real_matcher=False, menu=0):
    n0 = n
    us = {"SCPI_RegSet.0": 4, "SCPI_ErrorPushEx.0": 10, "SCPI_Parse.0": n + 2, "SCPI_Parse.1": n + 2, "findCommandHeader.0": 10,
          "strnpbrk.0": 6, "strnpbrk.1": n + 5, "memmove.0": n + 5, "memmove.1": n + 5, "memcpy.0": n + 2, "strlen.0": 10, "strnlen.0": n + 2,
          "strncasecmp.0": 10, "eq.0": 8, "handler.0": n + 5, "matchCommand.0": 9, "matchCommand.1": n + 5, "ref_lookup.0": 9, "r_header.0": n + 2, "r_mnemonic.0": n + 2, "skipProgramMnemonic.0": n + 2,
          "skipCompoundProgramHeader.0": n + 2, "composeCompoundCommand.0": n + 5, "patternSeparatorShortPos.0": 8, "compareStrAndNum.0": 4}
    for k in range(20):
        us["harness.%d" % k] = n + 5
    # everything else (the do{}while(0) macros and the keyword loops of matchCommand: at most 3 keywords + 1) gets 6
    if menu:
        n = 6 * menu + 1
        tag = "-menu%d" % menu + tag
        for kk in list(us):
            if us[kk] in (n0 + 2, n0 + 5):
                us[kk] = us[kk] - n0 + n
    return Case("msg-n%d%s" % (n, tag), H, SRCS, defs=["-DN=%d" % n] + (["-DMENU=%d" % menu] if menu else []), config=list(config), unwind=6, unwindset=us,
                extra_c=["models/mem.c"], remove_bodies=["scpiParser_parseAllProgramData"] + ([] if real_matcher else ["matchCommand"]), link_stubs=["scpiParser_parseAllProgramData"] + ([] if real_matcher else ["matchCommand"]), timeout=timeout, solver=solver, mem_est=8, functions=FUNCS, optional_witness=(["compound-path-applied"] if n < 6 else []),
                stubs=["strndup (malloc+copy)", "strnlen/strtol (exact models)", "memmove/memcpy (byte-loop models)", "scpiParser_parseAllProgramData replaced by an assert(false) stub: unreachable because the alphabet has no white space (proved)"] + ([] if real_matcher else ["matchCommand replaced by the reference acceptance relation of the 8 table patterns (pattern acceptance is C03)"]),
                bounds=dict(message="every well-formed message of 1..%d bytes over {A B C : ; ? * LF}: non-empty units of complete headers separated by ';', optional final LF" % n,
                            table="0 A:B | 1 A:C | 2 A[:B]:C | 3 C | 4 *C | 5 A:B? | 6 B | 7 C?", config=" ".join(config) or "default"))


UNIT_FORMS = ["#", "#:#", ":#", ":#:#", "*#", "#?", "#:#?", "#:#:#"]


def shaped(units, timeout=600):
    """units: list of unit forms; '#' = symbolic letter of {A,B,C}"""
    text = ";".join(units) + "\\n"
    n = len(";".join(units)) + 1
    c = mk(n, timeout, None, (), "")
    c.name = "shape-" + ";".join(units).replace("#", "x").replace("*", "s").replace("?", "q").replace(":", ".").replace(";", "_")
    c.defs = ["-DN=%d" % n, '-DSHAPE="%s"' % text, "-DUNITS=%d" % len(units)]
    c.optional_witness = ["WITNESS compound-path-applied", "WITNESS defined-and-undefined"]
    c.mem_est = 3
    c.bounds = dict(message="every message of the shape %s LF with each # a letter of {A B C}" % ";".join(units), table=c.bounds["table"], config="default")
    return c


SPELL = ["A:B", "A:C", ":A:B", "*C", "C", "B", "C?", "A:B:C", ":C", "A:B?"]


def tmpl(units, timeout=300):
    """concrete message text, symbolic acceptance relation of the command table"""
    text = ";".join(units)
    n = len(text) + 1
    c = mk(n, timeout, None, (), "")
    c.name = "tmpl-" + text.replace("*", "s").replace("?", "q").replace(":", ".").replace(";", "_")
    c.defs = ["-DN=%d" % n, '-DTMPL="%s\\n"' % text, "-DUNITS=%d" % len(units)]
    c.optional_witness = ["WITNESS compound-path-applied", "WITNESS defined-and-undefined"]
    c.mem_est = 2
    c.unwindset = dict(c.unwindset)
    c.unwindset.update({"tm_key.0": n + 5, "tm_key.1": n + 5})
    c.stubs = [x for x in c.stubs if not x.startswith("matchCommand")] + ["matchCommand replaced by a SYMBOLIC acceptance relation: an arbitrary function from (effective header text, table entry) to accept/refuse (pattern acceptance is C03)"]
    c.bounds = dict(message="the concrete message %s LF" % text, table="every acceptance relation of an 8-entry table over the message's effective headers (2^(8 x distinct headers) tables)", config="default")
    return c


def tmpl_cases(tier):
    cs = []
    for a in SPELL:
        for b in SPELL:
            cs.append(tmpl([a, b]))
    firsts = ("A:B", "A:B:C", ":A:B") if tier == "quick" else SPELL
    lasts = ("B", "C", "A:C", ":C") if tier == "quick" else SPELL
    for a in firsts:
        for m in SPELL:
            for z in lasts:
                cs.append(tmpl([a, m, z]))
    if tier != "quick":
        for a in ("A:B", "A:B:C"):
            for m1 in ("*C", "B", "A:C", ":C", "C?"):
                for m2 in ("*C", "B", "A:C", ":C", "C?"):
                    for z in ("B", "A:C"):
                        cs.append(tmpl([a, m1, m2, z]))
    return cs


def shaped_cases(tier):
    cs = []
    # all two-unit shapes, and three-unit shapes around every middle unit form
    for a in UNIT_FORMS:
        for b in UNIT_FORMS:
            cs.append(shaped([a, b]))
    for a in ("#:#", "#:#:#"):
        for m in UNIT_FORMS:
            for z in ("#", "#:#"):
                cs.append(shaped([a, m, z]))
    if tier != "quick":
        for a in ("#:#", ":#:#"):
            for m1 in ("*#", "#", "#:#", ":#"):
                for m2 in ("*#", "#", "#:#", ":#"):
                    cs.append(shaped([a, m1, m2, "#"], 1500))
    return cs


def cases(tier):
    if tier == "quick":
        return [mk(6), mk(5, 900, None, ["-DUSE_DEVICE_DEPENDENT_ERROR_INFORMATION=0"], "-noinfo")] + tmpl_cases(tier)
    # free text of 8 and 9 bytes was dropped from the registered tier: no verdict within 9000 s / 12000 s on the unchanged
    # tree (msg-n8 did decide a seeded change in 4026 s); 7 bytes takes 2170 s
    return tmpl_cases(tier) + [mk(7, 6000, "cadical"), mk(6, 3000, None, ["-DUSE_DEVICE_DEPENDENT_ERROR_INFORMATION=0"], "-noinfo")]


META = dict(
    bounds=dict(message_len="1..6 quick / 1..7 thorough (free text); 2- and 3-unit templates quick, plus 4-unit templates thorough", alphabet="A B C : ; ? * LF", units="up to 5"),
    outside=["messages longer than the bound (6-unit messages)", "letter case, long/short forms and numeric suffixes in headers (the "
             "matcher itself is C03's subject; here it runs for real on single-letter keywords)", "units with parameters (C05)"],
    assumptions=["message is NUL-terminated in its buffer (SCPI_Input guarantees it)"],
    explanation="bounded model checking of the real SCPI_Parse dispatch path against a text-level reference of the compound-header rule",
)
