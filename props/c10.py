from vlib.core import Case

H = "harness/c10_errqueue.c"
SRCS = ["error.c", "fifo.c", "minimal.c", "parser.c", "ieee488.c", "utils.c", "lexer.c", "units.c"]
FUNCS = ["SCPI_Init", "SCPI_ErrorInit", "SCPI_ErrorPushEx", "SCPI_ErrorAddInternal", "SCPI_ErrorPop", "SCPI_ErrorClear",
         "SCPI_ErrorCount", "SCPI_SystemErrorNextQ", "SCPI_ResultError", "fifo_init", "fifo_add",
         "fifo_remove", "fifo_remove_last", "fifo_clear", "fifo_count", "fifo_is_full", "fifo_is_empty", "SCPI_RegSet"]
OPS = {0: "SCPI_Init then pop of the empty queue (base case)", 1: "SCPI_ErrorPushEx(any code, text of 0..3 7-bit chars or "
       "none, explicit length 0..4, strndup may fail)", 2: "SCPI_ErrorPop", 3: "SCPI_ErrorClear", 4: "SCPI_ErrorCount",
       5: "SYST:ERR? (SCPI_SystemErrorNextQ)"}


def mk(cap, op, config=(), tag="", timeout=600):
    return Case("cap%d-op%d%s" % (cap, op, tag), H, SRCS, defs=["-DCAP=%d" % cap, "-DOP=%d" % op], config=list(config),
                unwind=6,
                unwindset={"strnpbrk.0": 3, "strnpbrk.1": 8, "strlen.0": 8, "SCPI_ResultError.0": 5, "SCPI_ResultError.1": 3,
                           "SCPI_RegSet.0": 4, "SCPI_ErrorPushEx.0": 10},
                flags=["--memory-leak-check"],
                remove_bodies=["UInt32ToStrBaseSign", "SCPI_ErrorTranslate"],
                gen_bodies=["UInt32ToStrBaseSign"], link_stubs=["SCPI_ErrorTranslate"],
                timeout=timeout, functions=FUNCS,
                stubs=["strndup (malloc+copy, may fail per symbolic fault bit)", "strnlen (exact)",
                       "UInt32ToStrBaseSign body removed (digits of the printed code are C14/C18's subject)",
                       "SCPI_ErrorTranslate replaced by a one-description stub (description text is C18's subject)"],
                bounds=dict(capacity=cap, operation=OPS[op], pre_state="every representation state satisfying REP: any "
                            "fill level 0..cap, any read index, any codes, each live slot with or without its own heap "
                            "text of 0..3 chars, dead slots holding NULL or a stale pointer to foreign live memory",
                            config=" ".join(config) or "default (malloc)"))


def cases(tier):
    cs = []
    caps = (1, 2, 3, 4)  # the step harness is cheap enough for every capacity in both tiers
    for cap in caps:
        for op in sorted(OPS):
            cs.append(mk(cap, op))
    for cap in (1, 2, 3, 4):
        for op in sorted(OPS):
            cs.append(mk(cap, op, ["-DUSE_DEVICE_DEPENDENT_ERROR_INFORMATION=0"], "-noinfo"))
    return cs


META = dict(
    bounds=dict(capacities="1..4 (both tiers, malloc and no-info configurations)", step="one operation from an arbitrary representation state "
                "(refinement step; histories of any length follow by induction)", text_len="0..3"),
    outside=["texts longer than 3 characters (copy loops are length-generic; long texts through the 255 limit are exercised "
             "under C18)", "capacities above 4", "the static-heap configuration (C20)"],
    assumptions=["after SCPI_ErrorPop the caller releases the text it was handed (documented ownership transfer)",
                 "dead queue slots hold NULL or pointers to memory the queue no longer owns"],
    explanation="refinement-step bounded model checking of the real queue code against an abstract FIFO, with allocation "
                "faults and CBMC memory-leak / double-free / use-after-free checks",
)
