from vlib.core import Case

H = "harness/c17_blocks.c"
SRCS = ["parser.c", "utils.c", "error.c", "fifo.c", "ieee488.c", "lexer.c"]
TYPES = ["Int8", "UInt8", "Int16", "UInt16", "Int32", "UInt32", "Int64", "UInt64", "Float", "Double"]
RB = dict(remove_bodies=["SCPI_ErrorTranslate"], link_stubs=[])


def hdr(lo, hi, timeout=900, tag=None):
    return Case("hdr-%s" % (tag or ("%d-%d" % (lo, hi))), H, SRCS, defs=["-DPART=1", "-DLEN_LO=%du" % lo, "-DLEN_HI=%du" % hi],
                unwind=12, timeout=timeout, flags=["--no-array-field-sensitivity"],
                functions=["SCPI_ResultArbitraryBlockHeader", "SCPI_UInt32ToStrBase", "UInt32ToStrBaseSign", "writeDelimiter"],
                bounds=dict(length="every length in [%d, %d]" % (lo, hi), preceding_item="with and without"))


def data(timeout=600):
    return Case("data-accounting", H, SRCS, defs=["-DPART=2"], unwind=12, timeout=timeout, flags=["--no-array-field-sensitivity"],
                functions=["SCPI_ResultArbitraryBlockData"],
                bounds=dict(state="arbitrary 32-bit remaining length and item count 0..999", data="0..8 arbitrary bytes"))


def arr(t, endian, fmt, count=3, timeout=600):
    return Case("array-%s-%s-%s" % (TYPES[t], endian, {1: "NORMAL", 2: "SWAPPED"}[fmt]), H, SRCS, defs=["-DPART=3", "-DTYPE=%d" % t, "-DCOUNT=%d" % count, "-DFMT=%d" % fmt], unwind=12, unwindset={"hx_write.0": 8 * count + 6},
                timeout=timeout, flags=["--no-array-field-sensitivity", "--%s-endian" % endian],
                functions=["SCPI_ResultArray" + TYPES[t], "produceResultArrayBinary", "SCPI_ResultArbitraryBlock",
                           "SCPI_ResultArbitraryBlockHeader", "SCPI_ResultArbitraryBlockData", "SCPI_Swap16", "SCPI_Swap32",
                           "SCPI_Swap64", "SCPI_GetNativeFormat"],
                bounds=dict(element_type=TYPES[t], elements="0..%d, every bit pattern" % count, format={1: "NORMAL (big-endian)", 2: "SWAPPED (little-endian)"}[fmt],
                            host_byte_order=endian + "-endian target model"))


def blk(timeout=600):
    return Case("block-streamed", H, SRCS, defs=["-DPART=4"], unwind=12, timeout=timeout, flags=["--no-array-field-sensitivity"],
                functions=["SCPI_ResultArbitraryBlock", "SCPI_ResultArbitraryBlockHeader", "SCPI_ResultArbitraryBlockData"],
                bounds=dict(data="0..8 arbitrary bytes", split="one call, or header + data cut at every position"))


def cases(tier):
    q = tier == "quick"
    cs = [hdr(0, 99999 if q else 999999, 900 if q else 3000)]
    for k in range(1, 9):
        cs.append(hdr(10 ** k - 1, 10 ** k, tag="pow10-%d" % k))
    cs.append(hdr(999999999, 999999999, tag="max"))
    cs.append(data())
    cs.append(blk())
    for t in range(10):
        for fmt in (1, 2):
            cs.append(arr(t, "little", fmt))
            cs.append(arr(t, "big", fmt))
    return cs


META = dict(
    bounds=dict(header_lengths="0..99999 (quick) / 0..999999 (thorough) symbolic, plus 10^k-1, 10^k for k=1..8 and 10^9-1", array_elements="0..3",
                block_data="0..8 bytes"),
    outside=["header lengths between the symbolic slice and 10^9 other than the listed boundary values (base-10 digit loop, see C14)",
             "arrays of more than 3 elements / blocks of more than 8 bytes (the per-element and per-byte code is loop-uniform)",
             "lengths of 10^9 and above (outside the statement)"],
    assumptions=["write callback accepts all bytes"],
    explanation="bounded model checking of the real block/array result functions with a recording write callback, under both byte-order target models",
)
