from vlib.core import Case

H = "harness/c20_heap.c"
CFG = ["-DUSE_MEMORY_ALLOCATION_FREE=0"]
OPS = {0: "scpiheap_init", 1: "scpiheap_strndup(text of length 0..size+1, length limit 0..size+1)", 2: "scpiheap_free(oldest string, no rollback)",
       3: "scpiheap_free(newest string, rollback)"}


def mk(size, op, timeout=600):
    return Case("heap-size%02d-op%d" % (size, op), H, ["utils.c"], defs=["-DSIZE=%d" % size, "-DOP=%d" % op], config=CFG,
                unwind=size + 4, timeout=timeout, flags=["--no-array-field-sensitivity"], functions=["scpiheap_init", "scpiheap_strndup", "scpiheap_get_parts", "scpiheap_free"],
                stubs=["strnlen (exact model)"],
                bounds=dict(heap_size=size, operation=OPS[op], pre_state="every heap state satisfying the invariant: 0..3 live "
                            "non-empty strings at any rotation (including wrapped ones), arbitrary non-NUL bytes"))


HQ = "harness/c20_queue.c"
QOPS = {1: "SCPI_ErrorPushEx(any code, text of length 0..size+1, length 0..size+1) incl. queue overflow", 2: "SYST:ERR? (pop, print, release)", 3: "SCPI_ErrorClear"}
QSRCS = ["error.c", "fifo.c", "minimal.c", "parser.c", "ieee488.c", "utils.c", "lexer.c", "units.c"]


def mkq(size, cap, op, timeout=900):
    us = {"strnpbrk.0": 3, "strnpbrk.1": size + 3, "strlen.0": size + 3, "SCPI_ResultError.0": size + 2, "SCPI_ResultError.1": 5,
          "SCPI_RegSet.0": 4, "SCPI_ErrorPushEx.0": 10}
    return Case("queue-size%02d-cap%d-op%d" % (size, cap, op), HQ, QSRCS, defs=["-DSIZE=%d" % size, "-DCAP=%d" % cap, "-DOP=%d" % op], config=CFG,
                unwind=size + 4, unwindset=us, flags=["--no-array-field-sensitivity"], remove_bodies=["UInt32ToStrBaseSign", "SCPI_ErrorTranslate"],
                gen_bodies=["UInt32ToStrBaseSign"], link_stubs=["SCPI_ErrorTranslate"], timeout=timeout, mem_est=4,
                functions=["SCPI_ErrorPushEx", "SCPI_ErrorAddInternal", "SCPI_SystemErrorNextQ", "SCPI_ErrorPop", "SCPI_ErrorClear", "SCPI_ResultError",
                           "scpiheap_strndup", "scpiheap_get_parts", "scpiheap_free", "fifo_add", "fifo_remove", "fifo_remove_last"],
                stubs=["strnlen (exact model)", "UInt32ToStrBaseSign body removed", "SCPI_ErrorTranslate replaced by a one-description stub"],
                bounds=dict(heap_size=size, queue_capacity=cap, operation=QOPS[op], pre_state="every consistent (queue, heap) state: any fill level and "
                            "read index, each entry with or without text, the texts being the heap's 0..3 live strings at any rotation"))


def cases(tier):
    sizes = (2, 3, 4, 5, 6, 8, 10) if tier == "quick" else range(2, 13)
    cs = [mk(s, op, 600 if tier == "quick" else 2400) for s in sizes for op in sorted(OPS)]
    qs = ((5, 2), (6, 1), (4, 3)) if tier == "quick" else ((5, 2), (6, 1), (4, 3), (8, 2), (7, 3), (12, 2), (3, 1))
    cs += [mkq(sz, cap, op, 900 if tier == "quick" else 3000) for (sz, cap) in qs for op in (1, 2, 3)]
    return cs


META = dict(
    bounds=dict(heap_sizes="2,3,4,5,6,8,10 quick; 2..12 thorough", live_strings="0..3", step="one operation from an arbitrary valid heap state"),
    outside=["more than 3 live strings at once", "heap sizes above 12", "release of a string that is neither the oldest nor the "
             "newest (the queue never does that; a caller holding a popped text is responsible for it)"],
    assumptions=["strings are released oldest-first (pop / clear) or newest-first with rollback (overflow), as error.c does"],
    explanation="refinement-step bounded model checking of the real circular string heap",
)
