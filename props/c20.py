from vlib.core import Case

H = "harness/c20_heap.c"
CFG = ["-DUSE_MEMORY_ALLOCATION_FREE=0"]
OPS = {0: "scpiheap_init", 1: "scpiheap_strndup(text of length 0..size+1, length limit 0..size+1)", 2: "scpiheap_free(oldest string, no rollback)",
       3: "scpiheap_free(newest string, rollback)"}


def mk(size, op, timeout=600):
    return Case("heap-size%02d-op%d" % (size, op), H, ["utils.c"], defs=["-DSIZE=%d" % size, "-DOP=%d" % op], config=CFG,
                unwind=size + 4, timeout=timeout, flags=["--no-array-field-sensitivity"], functions=["scpiheap_init", "scpiheap_strndup", "scpiheap_get_parts", "scpiheap_free"],
                stubs=["strnlen (exact model)"],
                bounds=dict(heap_size=size, operation=OPS[op], pre_state="every heap state satisfying the invariant: 0..3 live "
                            "non-empty strings at any rotation (including wrapped ones), arbitrary non-NUL bytes"))


def cases(tier):
    sizes = (2, 3, 5, 8) if tier == "quick" else range(2, 13)
    cs = [mk(s, op, 600 if tier == "quick" else 2400) for s in sizes for op in sorted(OPS)]
    return cs


META = dict(
    bounds=dict(heap_sizes="2,3,5,8 quick; 2..12 thorough", live_strings="0..3", step="one operation from an arbitrary valid heap state"),
    outside=["more than 3 live strings at once", "heap sizes above 12", "release of a string that is neither the oldest nor the "
             "newest (the queue never does that; a caller holding a popped text is responsible for it)"],
    assumptions=["strings are released oldest-first (pop / clear) or newest-first with rollback (overflow), as error.c does"],
    explanation="refinement-step bounded model checking of the real circular string heap",
)
