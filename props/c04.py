from vlib.core import Case

H = "harness/c04_numeric.c"
SRCS = ["parser.c", "lexer.c", "units.c", "utils.c", "error.c", "fifo.c", "ieee488.c"]
READERS = ["SCPI_ParamInt32", "SCPI_ParamUInt32", "SCPI_ParamInt64", "SCPI_ParamUInt64", "SCPI_ParamDouble", "SCPI_ParamFloat"]
US = {"SCPI_RegSet.0": 4, "SCPI_ErrorPushEx.0": 10}
# loops of recognisers that cannot advance on the shaped input (a decimal literal starts with sign/digit/point, a
# nondecimal one with '#'): one iteration suffices; every such bound is still checked by an unwinding assertion
IRRELEVANT_DEC = {"skipHexNum.0": 1, "skipOctNum.0": 1, "skipBinNum.0": 1, "skipQuoteProgramData.0": 1, "skipProgramExpression.0": 1,
                  "scpiLex_CharacterProgramData.0": 1, "scpiLex_ArbitraryBlockProgramData.0": 1, "scpiLex_SuffixProgramData.0": 1,
                  "skipAlpha.0": 1}
IRRELEVANT_INT = {"skipQuoteProgramData.0": 1, "skipProgramExpression.0": 1, "scpiLex_CharacterProgramData.0": 1,
                  "scpiLex_ArbitraryBlockProgramData.0": 1, "scpiLex_SuffixProgramData.0": 1, "skipAlpha.0": 1}


def p1(n, timeout=900):
    return Case("decimal-n%d" % n, H, SRCS, defs=["-DPART=1", "-DN=%d" % n], unwind=n + 3, unwindset=dict(US, **IRRELEVANT_DEC), timeout=timeout, object_bits=11,
                functions=["SCPI_ParamDouble", "SCPI_ParamFloat", "SCPI_ParamNumber", "SCPI_Parameter", "scpiParser_parseProgramData",
                           "scpiLex_DecimalNumericProgramData", "SCPI_ParamToDouble", "SCPI_ParamToFloat", "strToDouble", "strToFloat"],
                stubs=["strtod/strtof (consumed-prefix exact model; value exact for plain integers <= 15 digits, otherwise arbitrary)"],
                bounds=dict(literal="every 488.2 decimal literal of 1..%d characters over {0 1 2 3 5 7 8 9 - + . E e SP TAB}" % n,
                            readers="SCPI_ParamDouble, SCPI_ParamFloat, SCPI_ParamNumber (symbolic choice)"))


def p2(reader, n, timeout=900, hexonly=False):
    return Case("integer-%s-n%d%s" % (READERS[reader][10:], n, "-hex" if hexonly else ""), H, SRCS, defs=["-DPART=2", "-DN=%d" % n, "-DREADER=%d" % reader] + (["-DHEXONLY=1"] if hexonly else []),
                unwind=n + 3, unwindset=dict(US, **IRRELEVANT_INT), timeout=timeout, object_bits=11, optional_witness=(["negative-decimal"] if hexonly else []), functions=[READERS[reader], "SCPI_Parameter", "scpiLex_NondecimalNumericData",
                "scpiLex_DecimalNumericProgramData", "ParamSignToUInt32", "ParamSignToUInt64", "strBaseToInt32", "strBaseToUInt32", "strBaseToInt64", "strBaseToUInt64"],
                stubs=["strtol/strtoul/strtoll/strtoull (exact models)", "strtod/strtof (exact for plain integers)"],
                bounds=dict(literal="every [sign]digits or #H/#Q/#B literal of 1..%d characters whose value fits the reader's type" % n,
                            reader=READERS[reader]))


def p2b(reader, prefix, free=2, timeout=900):
    """boundary decimal literals: concrete prefix + `free` symbolic characters"""
    n = len(prefix) + free
    c = p2(reader, n, timeout)
    c.name = "integer-%s-edge%s" % (READERS[reader][10:], prefix.replace("-", "m"))
    c.defs = c.defs + ['-DDECPREFIX="%s"' % prefix]
    c.optional_witness = ["WITNESS negative-decimal", "WITNESS hex"]
    c.bounds = dict(literal="every decimal literal %s followed by 0..%d more digits whose value fits the reader's type" % (prefix, free), reader=READERS[reader])
    return c


EDGES = [(0, "-21474836"), (0, "21474836"), (1, "42949672"), (2, "-92233720368547758"), (2, "92233720368547758"), (3, "184467440737095516"),
         (0, "-327"), (0, "655"), (2, "-21474836"), (2, "42949672"), (3, "42949672")]


def p3(cls, stride, timeout=900):
    return Case("units-class%02d-of-%d" % (cls, stride), H, SRCS, defs=["-DPART=3", "-DN=4", "-DUNIT_CLASS=%d" % cls, "-DUNIT_STRIDE=%d" % stride, "-DSPECIALS=0"], unwind=14,
                unwindset=dict(US, **{"harness.1": 130, "translateUnit.0": 130, "strlen.0": 12, "skipWs.0": 6, "skipNumbers.0": 6, "skipAlpha.0": 8, "strncasecmp.0": 8, "vm_strtod_core.0": 4, "vm_strtod_core.1": 4, "vm_strtod_core.2": 4, "skipWhitespace.0": 6}),
                optional_witness=["special-short-form"],
                timeout=timeout, object_bits=11, mem_est=4, functions=["SCPI_ParamNumber", "transformNumber", "translateUnit", "compareStr"],
                stubs=["strtod (exact for the literal 25)", "strncasecmp (CBMC model)"],
                bounds=dict(number="25", suffix="every row r of the real scpi_units_def with r mod %d == %d (symbolic index), every letter-case combination, 0..2 blanks" % (stride, cls)))


def p3s(timeout=900):
    return Case("special-mnemonics", H, SRCS, defs=["-DPART=3", "-DN=4", "-DSPECIALS=1"], unwind=14,
                unwindset=dict(US, **{"harness.1": 130, "strlen.0": 12, "SCPI_ParamToChoice.0": 12, "skipWs.0": 6, "skipNumbers.0": 6, "skipAlpha.0": 12, "strncasecmp.0": 12, "scpiLex_CharacterProgramData.0": 12}),
                optional_witness=["two-blanks"],
                timeout=timeout, object_bits=11, mem_est=4, functions=["SCPI_ParamNumber", "SCPI_ParamToChoice", "matchPattern", "compareStr"],
                stubs=["strncasecmp (CBMC model)"],
                bounds=dict(specials="every special mnemonic in short and long form, every letter-case combination"))


def cases(tier):
    q = tier == "quick"
    cs = [p1(6 if q else 7, 900 if q else 3000)]
    for r in range(6):
        # the double reader stays at 6 bytes in both tiers: 8 bytes had no verdict after 20 CPU-minutes
        cs.append(p2(r, 6 if (q or r == 4) else 8, 900 if q else 3000))
    for cls in range(12):
        cs.append(p3(cls, 12, 900 if q else 3000))
    # full-width nondecimal literals (#H + up to 16 hex digits) through every reader whose type they fit
    cs.append(p2(4, 12, 900 if q else 3000, hexonly=True))
    cs.append(p2(3, 18, 900 if q else 3000, hexonly=True))
    cs.append(p2(2, 18, 900 if q else 3000, hexonly=True))
    cs.append(p2(1, 10, 900 if q else 3000, hexonly=True))
    cs.append(p2(0, 10, 900 if q else 3000, hexonly=True))
    # decimal literals at the edge of each integer type's range (10..20 characters)
    for r, pre in EDGES:
        cs.append(p2b(r, pre, 2 if q else 3, 900 if q else 3000))
    cs.append(p3s(900 if q else 3000))
    return cs


META = dict(
    bounds=dict(decimal_literal_len="1..6 quick / 1..7 thorough", integer_literal_len="1..6 quick / 1..8 thorough, #H literals to 16 digits, decimal literals at the edge of each type to 20 characters"),
    outside=["literals longer than the bound (digits 15..25 of the statement)", "the correctly-rounded value of libc strtod/strtof itself "
             "(libc is not repository code; the check proves the library hands libc exactly the literal and returns its result unchanged)",
             "decimal literals with exponent or fraction read through the integer readers (the statement speaks of integer literals)"],
    assumptions=["the literal sits in a NUL-terminated buffer (SCPI_Input/SCPI_Parse guarantee that)"],
    explanation="bounded model checking of the real typed parameter readers with exact libc conversion models",
)
