from vlib.core import Case

H = "harness/c19_lists.c"
SRCS = ["expression.c", "lexer.c", "parser.c", "utils.c", "error.c", "fifo.c", "ieee488.c"]
KIND = {1: "SCPI_ExprNumericListEntry", 2: "SCPI_ExprNumericListEntryInt", 3: "SCPI_ExprChannelListEntry"}


def mk(kind, n, timeout=900, solver=None, imax=9, cap=None, alph8=False):
    capdef = (["-DCAP=%d" % cap] if cap is not None else []) + (["-DALPH8=1"] if alph8 else [])
    return Case("kind%d-n%d%s%s" % (kind, n, "-cap%d" % cap if cap is not None else "", "-alph8" if alph8 else ""), H, SRCS, defs=["-DKIND=%d" % kind, "-DN=%d" % n, "-DIMAX=%d" % imax] + capdef, unwind=max(n, imax + 1) + 3,
                unwindset={"SCPI_RegSet.0": 4, "SCPI_ErrorPushEx.0": 10, "vm_scan.0": 2, "vm_scan.1": n + 1,
                           "SCPI_ExprChannelListEntry.0": imax + 2, "SCPI_ExprNumericListEntry.0": imax + 2, "channelSpec.0": n // 2 + 2}, timeout=timeout, solver=solver, mem_est=(12 if n >= 7 else 5),
                remove_bodies=["SCPI_ParamToInt32"] if kind in (2, 3) else [], link_stubs=["SCPI_ParamToInt32"] if kind in (2, 3) else [],
                functions=[KIND[kind], "numericRange", "channelSpec", "channelRange", "scpiLex_DecimalNumericProgramData",
                           "scpiLex_Colon", "scpiLex_Comma", "scpiLex_SpecificCharacter", "SCPI_ParamToInt32"],
                stubs=(["SCPI_ParamToInt32 replaced by a stub storing 1000 + start offset of the literal it was given (value conversion is C04/C07)"] if kind in (2, 3) else []),
                bounds=dict(function=KIND[kind], body=("every string of length 0..%d over {1 2 ! : , @ - A}" % n) if alph8 else ("every string of length 0..%d over {0 1 5 9 - + . : , ! @ SP TAB E e A}" % n),
                            index="0..%d (symbolic)" % imax, capacity=("%d (exact-size arrays)" % cap) if cap is not None else "n/a"))


def shaped(d1, d2, cap, timeout=900):
    n = 1 + (2 * d1 - 1) + ((1 + 2 * d2 - 1) if d2 else 0) + 2
    return Case("channel-shape-%dx%d-cap%d" % (d1, d2, cap), H, SRCS, defs=["-DKIND=4", "-DN=%d" % n, "-DIMAX=2", "-DCAP=%d" % cap, "-DSHAPE_D1=%d" % d1, "-DSHAPE_D2=%d" % d2],
                unwind=n + 3, unwindset={"SCPI_RegSet.0": 4, "SCPI_ErrorPushEx.0": 10, "SCPI_ExprChannelListEntry.0": 3, "channelSpec.0": 5,
                                         "skipNumbers.0": 3, "skipWs.0": 2}, timeout=timeout,
                remove_bodies=["SCPI_ParamToInt32"], link_stubs=["SCPI_ParamToInt32"], mem_est=4,
                
                functions=[KIND[3], "channelSpec", "channelRange"],
                stubs=["SCPI_ParamToInt32 replaced by a stub storing 1000 + start offset of the literal it was given"],
                bounds=dict(function=KIND[3], body="@ + %d single-digit dimension(s)%s, optionally followed by ',' digit; digits symbolic" % (
                    d1, (" : %d dimension(s)" % d2) if d2 else ""), index="0..2 (symbolic)", capacity="%d (exact-size arrays)" % cap))


def cases(tier):
    if tier == "quick":
        sh = [shaped(d1, d2, 2) for d1 in (1, 2, 3) for d2 in (0, 1, 2, 3)]
        return [mk(1, 6, imax=4), mk(2, 6, imax=4)] + [mk(3, 6, imax=2, cap=c) for c in (0, 1, 2)] + sh
    sh = [shaped(d1, d2, cap, 3000) for d1 in (1, 2, 3) for d2 in (0, 1, 2, 3) for cap in (0, 1, 3)]
    return sh + [mk(1, 8, 6000), mk(2, 8, 6000)] + [mk(3, 6, 9000, None, imax=4, cap=c) for c in (0, 1, 2, 3, 4)]


META = dict(
    bounds=dict(body_len="numeric lists 0..6 quick / 0..8 thorough; channel lists 0..6 (index 0..2 quick, 0..4 thorough), plus shaped channel entries of up to 3x3 dimensions with symbolic digits", index="0..4 (numeric), 0..2 (channel) quick; 0..9 / 0..4 thorough", capacity="0..2 quick, 0..4 thorough"),
    outside=["expression bodies longer than the bound", "double-valued variant SCPI_ExprNumericListEntryDouble (same walker; "
             "value conversion is libc strtod, see C04)", "integer values with more than the bounded digits"],
    assumptions=["the parameter is a PROGRAM_EXPRESSION token over a NUL-terminated buffer (as produced by the parameter reader)"],
    explanation="bounded model checking of the real list walkers against an index-based reference list parser",
)
