from vlib.core import Case

H = "harness/c19_lists.c"
SRCS = ["expression.c", "lexer.c", "parser.c", "utils.c", "error.c", "fifo.c", "ieee488.c"]
KIND = {1: "SCPI_ExprNumericListEntry", 2: "SCPI_ExprNumericListEntryInt", 3: "SCPI_ExprChannelListEntry"}


def mk(kind, n, timeout=900, solver=None, imax=9, cap=None):
    capdef = ["-DCAP=%d" % cap] if cap is not None else []
    return Case("kind%d-n%d%s" % (kind, n, "-cap%d" % cap if cap is not None else ""), H, SRCS, defs=["-DKIND=%d" % kind, "-DN=%d" % n, "-DIMAX=%d" % imax] + capdef, unwind=max(n, imax + 1) + 3,
                unwindset={"SCPI_RegSet.0": 4, "SCPI_ErrorPushEx.0": 10, "vm_scan.0": 2, "vm_scan.1": n + 1}, timeout=timeout, solver=solver,
                remove_bodies=["SCPI_ParamToInt32"] if kind in (2, 3) else [], link_stubs=["SCPI_ParamToInt32"] if kind in (2, 3) else [],
                functions=[KIND[kind], "numericRange", "channelSpec", "channelRange", "scpiLex_DecimalNumericProgramData",
                           "scpiLex_Colon", "scpiLex_Comma", "scpiLex_SpecificCharacter", "SCPI_ParamToInt32"],
                stubs=(["SCPI_ParamToInt32 replaced by a stub storing 1000 + start offset of the literal it was given (value conversion is C04/C07)"] if kind in (2, 3) else []),
                bounds=dict(function=KIND[kind], body="every string of length 0..%d over {0 1 5 9 - + . : , ! @ SP TAB E e A}" % n,
                            index="0..%d (symbolic)" % imax, capacity=("%d (exact-size arrays)" % cap) if cap is not None else "n/a"))


def cases(tier):
    if tier == "quick":
        return [mk(1, 5, imax=4), mk(2, 5, imax=4)] + [mk(3, 4, imax=3, cap=c) for c in (0, 1, 2)]
    return [mk(1, 8, 3000), mk(2, 7, 3000)] + [mk(3, 6, 6000, "cadical", imax=4, cap=c) for c in (0, 1, 2, 3, 4)]


META = dict(
    bounds=dict(body_len="numeric lists 0..5 quick / 0..8 thorough; channel lists 0..4 quick / 0..6 thorough", index="0..4 quick, 0..9 thorough (numeric)", capacity="0..2 quick, 0..4 thorough"),
    outside=["expression bodies longer than the bound", "double-valued variant SCPI_ExprNumericListEntryDouble (same walker; "
             "value conversion is libc strtod, see C04)", "integer values with more than the bounded digits"],
    assumptions=["the parameter is a PROGRAM_EXPRESSION token over a NUL-terminated buffer (as produced by the parameter reader)"],
    explanation="bounded model checking of the real list walkers against an index-based reference list parser",
)
